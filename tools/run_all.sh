#!/bin/bash
# run every registered check of one tier; print one summary line per property
tier="${1:-quick}"
cd /verif
fail=0
for p in $(python3 -c "import json; print(' '.join(c['property_id'] for c in json.load(open('/verif/MANIFEST.json'))['checks']))"); do
  out=$(./check "$p" "$tier" 2>&1); rc=$?
  echo "$out" | grep -E "^(VIOLATION|KNOWN-FINDING|machinery)" | head -5
  echo "$out" | tail -1 | sed "s/^/rc=$rc /"
  [ $rc -ne 0 ] && fail=1
done
exit $fail
