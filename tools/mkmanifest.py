#!/usr/bin/env python3
"""Writes /verif/MANIFEST.json from the table below (kept in one place so it stays valid)."""
import json, sys

CHECKS = {
 "C01": dict(engine="ENUM", section="5 C01",
   technique="bounded-exhaustive enumeration of the wire input space (choice-tree explorer) executed on the real decoder in two build profiles, panics/aborts/hangs attributed per case",
   text="Every input of the wire space W0-W6 (all short strings, all 65536 flag words, boundary-complete control/data headers with every truncation point, single AVP records around every guard, all record sequences up to the bound, size extremes) is decoded under the option sets in both build profiles; any panic, abort, overflow, hang or empty error list is a violation. Bounded-exhaustive, not sampled.",
   note="Payload contents by class; structure bounded (<=4/5 records, see evidence.bounds). Monitored reader used first so that an out-of-contract unchecked read is reported instead of executed."),
 "C02": dict(engine="ENUM", section="5 C02",
   technique="bounded-exhaustive enumeration of the wire space decoded through four contract-checking Reader implementations plus SliceReader; every request checked, results compared across readers",
   text="Same space as C01, decoded through harness implementations of the public Reader trait that check every unchecked read / skip / sub-range against the remaining length (reporting the crate call site) and through SliceReader; results must be identical across all readers.",
   note="A reader that violates the trait contract is out of scope by the property's wording; the one unspecified corner (bytes() overrun) is explored both ways."),
 "C05": dict(engine="ENUM", section="5 C05",
   technique="bounded-exhaustive enumeration of the wire space; implementation compared with an independent executable reference decoder on every enumerated input (accept/reject and values)",
   text="Every enumerated input is decoded by the crate and by the reference specification written from RFC 2661; accept/reject must agree and accepted values must be equal field for field, AVP lists element-wise.",
   note="The specification is my reading of RFC 2661 plus the crate's bit-numbering conventions; error variants are not compared here; 'Unspecified' region: declared data Length leaving an empty payload."),
}

def main():
    checks = []
    for pid in sorted(CHECKS):
        c = CHECKS[pid]
        checks.append({
            "property_id": pid,
            "quick_cmd": f"./check {pid} quick",
            "thorough_cmd": f"./check {pid} thorough",
            "evidence_file": f"/verif/evidence/{pid}.json",
            "replay_cmd_template": "./check replay {path}",
            "engine": c["engine"],
            "level_claimed": {"category": "model_checking", "text": c["text"], "design_ref": f"DESIGN.md §{c['section']}"},
            "level_note": c["note"],
            "technique": c["technique"],
        })
    all_ids = [f"C{n:02d}" for n in range(1, 21)]
    na = [{"property_id": p, "reason": "check not built yet in this round (planned: see DESIGN.md §5); not claimed until it runs"} for p in all_ids if p not in CHECKS]
    m = {
        "version": 1,
        "setup_cmd": "./check build",
        "hooks": {
            "guard": "rl2tp_verif",
            "enable": "no hooks are needed: every observation point is reachable through the crate's public API (Reader/Writer are public traits); the harness crate depends on /repo by path and is rebuilt from its working tree on every check",
            "baseline_off_cmd": "cd /repo && cargo test --workspace --no-fail-fast --offline",
            "source_commits": [],
            "add_only": True,
        },
        "engines": [
            {"name": "ENUM", "path": "harness/src/explore.rs", "serves_properties": [p for p in sorted(CHECKS) if CHECKS[p]["engine"] == "ENUM"], "kind_free_text": "hand-rolled stateless choice-tree explorer (product and deviation-bounded), real code executed on every leaf against a Rust reference specification"},
            {"name": "HIST", "path": "harness/src/props", "serves_properties": [p for p in sorted(CHECKS) if CHECKS[p]["engine"] == "HIST"], "kind_free_text": "stateright explicit-state BFS over operation histories acting on the real objects"},
            {"name": "SCHED", "path": "harness/src/props", "serves_properties": [p for p in sorted(CHECKS) if CHECKS[p]["engine"] == "SCHED"], "kind_free_text": "loom exhaustive thread interleavings bounded by preemptions, scheduling points at the crate's Reader/Writer calls"},
        ],
        "checks": checks,
        "not_applicable": na,
        "notes": "All checks: exit 0 held / known findings only, exit 1 VIOLATION, exit 2 machinery problem. Known findings: /verif/known_findings.json.",
    }
    json.dump(m, open("/verif/MANIFEST.json", "w"), indent=1)
    print("wrote MANIFEST.json with", len(checks), "checks,", len(na), "not_applicable")

if __name__ == "__main__":
    main()
