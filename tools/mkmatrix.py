#!/usr/bin/env python3
"""Regenerate the detection matrix of DESIGN.md §7.1 from seeded/*/meta.json (and SELFTEST.txt for
seeds whose meta carries no record of a full run). Replaces the table in place."""
import json, glob, os, re

def main():
    selftest = {}
    p = "/verif/SELFTEST.txt"
    if os.path.exists(p):
        for line in open(p):
            m = re.match(r"^(\S+): target (C\d\d) FIRED", line)
            if m:
                selftest[m.group(1)] = m.group(2)
    rows = ["| seed | written for | what it needs to manifest | checks that fire (quick tier) |", "|---|---|---|---|"]
    for d in sorted(glob.glob("/verif/seeded/*/")):
        name = os.path.basename(d.rstrip("/"))
        meta = json.load(open(d + "meta.json"))
        prop = meta.get("property", "?")
        fired = sorted(meta.get("checks_fired", {}).keys())
        if not fired and name in selftest:
            fired = [selftest[name]]
        cells = ", ".join(f"**{c}**" if c == prop else c for c in fired)
        needs = (meta.get("needs_to_manifest") or "").replace("|", "/").replace("\n", " ")
        rows.append(f"| {name} | {prop} | {needs} | {cells} |")
    table = "\n".join(rows)
    s = open("/verif/DESIGN.md").read()
    a = s.index("| seed | written for |")
    b = s.index("\n\n", a)
    s = s[:a] + table + s[b:]
    open("/verif/DESIGN.md", "w").write(s)
    print(len(rows) - 2, "rows")

if __name__ == "__main__":
    main()
