#!/usr/bin/env python3
"""Apply a patch to /repo, run the repository's own tests and the given checks, undo the patch.

usage: try_patch.py <patch.diff> [--tier quick] [--no-tests] <Cnn> [<Cnn> ...]   (or 'all')
Prints one line per check: fired / silent / machinery, and the violation signatures.
/repo is always restored (git checkout -- .), also on error.
"""
import json, subprocess, sys, os, re, time

def sh(cmd, **kw):
    return subprocess.run(cmd, shell=True, capture_output=True, text=True, **kw)

def main():
    args = sys.argv[1:]
    patch = os.path.abspath(args.pop(0))
    tier = "quick"; tests = True
    props = []
    while args:
        a = args.pop(0)
        if a == "--tier": tier = args.pop(0)
        elif a == "--no-tests": tests = False
        else: props.append(a)
    if props == ["all"]:
        props = [c["property_id"] for c in json.load(open("/verif/MANIFEST.json"))["checks"]]
    st = sh("git -C /repo status --porcelain --untracked-files=no")
    if st.stdout.strip():
        print("refusing: /repo has uncommitted changes:\n" + st.stdout); sys.exit(2)
    r = sh(f"git -C /repo apply {patch}")
    if r.returncode != 0:
        print("patch does not apply:", r.stderr); sys.exit(2)
    result = {"patch": patch, "tests": None, "checks": {}}
    try:
        if tests:
            t = sh("cd /repo && cargo test --workspace --no-fail-fast --offline 2>&1 | grep -E '^test result|error(\\[|:)' ")
            lines = t.stdout.strip().splitlines()
            ok = bool(lines) and all(("ok." in l and " 0 failed" in l) for l in lines if l.startswith("test result:")) and not any(l.startswith("error") for l in lines)
            result["tests"] = {"green": ok, "summary": lines[:4]}
            print("repo tests:", "GREEN" if ok else "NOT GREEN", lines[:2])
        for p in props:
            t0 = time.time()
            c = sh(f"cd /verif && ./check {p} {tier}")
            sigs = re.findall(r"^  signature: (.*)$", c.stdout, re.M)
            known = re.findall(r"^KNOWN-FINDING: (.*)$", c.stdout, re.M)
            state = {0: "silent", 1: "FIRED"}.get(c.returncode, f"machinery({c.returncode})")
            result["checks"][p] = {"rc": c.returncode, "state": state, "signatures": sigs, "known": known, "wall_s": round(time.time() - t0, 1)}
            print(f"{p}: {state} ({round(time.time()-t0,1)}s)")
            for s in sigs[:6]: print("     ", s)
            if c.returncode not in (0, 1):
                print("     ", (c.stderr or c.stdout).strip().splitlines()[-3:])
    finally:
        sh("git -C /repo checkout -- . && git -C /repo clean -fdq -- src tests benches")
        st = sh("git -C /repo status --porcelain --untracked-files=no")
        if st.stdout.strip():
            print("WARNING: /repo not clean after restore:", st.stdout)
    print("RESULT", json.dumps(result))

if __name__ == "__main__":
    main()
