#!/usr/bin/env python3
"""Confirm seeded changes in a scratch worktree of /repo (outside /repo and /verif):
   - demo passes on clean HEAD, - patch applies, - repo tests green with the patch, - demo fails with it.
   Then run the /verif checks against the patch (applied to /repo and undone) and record which fire.
usage: confirm_seed.py [--checks all|C01,C05] <seed-dir> [<seed-dir> ...]
Writes <seed-dir>/meta.json (keeps fields that are already there: property, needs)."""
import json, os, subprocess, sys, re

WT = "/tmp/confirm-wt"
ENV = dict(os.environ, CARGO_NET_OFFLINE="true")

def sh(cmd, cwd=None):
    return subprocess.run(cmd, shell=True, capture_output=True, text=True, cwd=cwd, env=ENV)

def tests_green(out):
    lines = [l for l in out.splitlines() if l.startswith("test result:")]
    return bool(lines) and all(" 0 failed" in l and "ok." in l for l in lines)

def main():
    args = sys.argv[1:]
    checks = "all"
    if args and args[0] == "--checks":
        args.pop(0); checks = args.pop(0)
    if not os.path.isdir(WT):
        r = sh(f"git -C /repo worktree add -q --detach {WT} HEAD")
        if r.returncode != 0:
            print(r.stderr); sys.exit(2)
    else:
        sh("git checkout -q --detach $(git -C /repo rev-parse HEAD) && git checkout -- . && rm -f tests/demo.rs", cwd=WT)
    for seed in args:
        seed = os.path.abspath(seed)
        meta_path = os.path.join(seed, "meta.json")
        meta = json.load(open(meta_path)) if os.path.exists(meta_path) else {}
        patch = os.path.join(seed, "patch.diff"); demo = os.path.join(seed, "demo.rs")
        sh("git checkout -- . && git clean -fdq -- src benches && rm -rf tests", cwd=WT)
        res = {}
        if os.path.exists(demo):
            os.makedirs(os.path.join(WT, "tests"), exist_ok=True)
            sh(f"cp {demo} tests/demo.rs", cwd=WT)
            r = sh("cargo test --offline --test demo 2>&1", cwd=WT)
            res["demo_passes_without_change"] = tests_green(r.stdout)
            if not res["demo_passes_without_change"]:
                res["demo_clean_output_tail"] = r.stdout.strip().splitlines()[-12:]
            sh("rm -rf tests", cwd=WT)
        r = sh(f"git apply {patch}", cwd=WT)
        res["patch_applies"] = r.returncode == 0
        if r.returncode == 0:
            r = sh("cargo test --offline 2>&1", cwd=WT)
            res["repo_tests_green_with_change"] = tests_green(r.stdout) and "error" not in r.stdout.split("test result")[0][-2000:].lower().replace("call_errors", "")
            res["repo_tests_summary"] = [l for l in r.stdout.splitlines() if l.startswith("test result:")]
            if os.path.exists(demo):
                os.makedirs(os.path.join(WT, "tests"), exist_ok=True)
                sh(f"cp {demo} tests/demo.rs", cwd=WT)
                r = sh("cargo test --offline --test demo 2>&1", cwd=WT)
                res["demo_fails_with_change"] = (not tests_green(r.stdout))
                res["demo_output_tail"] = r.stdout.strip().splitlines()[-4:]
                if not res["demo_fails_with_change"]:
                    # build-profile dependent changes: try the optimised profile as well
                    r = sh("cargo test --offline --release --test demo 2>&1", cwd=WT)
                    res["demo_fails_with_change"] = (not tests_green(r.stdout))
                    res["demo_fails_only_in_release"] = res["demo_fails_with_change"]
                    res["demo_output_tail"] = r.stdout.strip().splitlines()[-4:]
        sh("git checkout -- . && git clean -fdq -- src benches && rm -rf tests", cwd=WT)
        meta["confirmed"] = res
        meta["confirm_commands"] = ["git worktree add /tmp/confirm-wt HEAD", "cp demo.rs tests/demo.rs; cargo test --offline --test demo  (clean HEAD)", "git apply patch.diff; cargo test --offline; cargo test --offline --test demo"]
        ok = res.get("patch_applies") and res.get("repo_tests_green_with_change") and res.get("demo_fails_with_change", True) and res.get("demo_passes_without_change", True)
        meta["kept"] = bool(ok)
        # run the checks of /verif against it
        if ok:
            sel = "all" if checks == "all" else " ".join(checks.split(","))
            r = sh(f"timeout 2400 python3 /verif/tools/try_patch.py {patch} --no-tests {sel}")
            if r.returncode == 124:
                sh("git -C /repo checkout -- . && git -C /repo clean -fdq -- src tests benches")
            m = re.search(r"^RESULT (.*)$", r.stdout, re.M)
            if m:
                rr = json.loads(m.group(1))
                meta["checks_fired"] = {k: v["signatures"][:8] for k, v in rr["checks"].items() if v["state"] == "FIRED"}
                meta["checks_silent"] = [k for k, v in rr["checks"].items() if v["state"] == "silent"]
                meta["checks_machinery"] = [k for k, v in rr["checks"].items() if v["state"].startswith("machinery")]
            else:
                meta["checks_error"] = r.stdout[-500:] + r.stderr[-500:]
        json.dump(meta, open(meta_path, "w"), indent=1)
        print(os.path.basename(seed), "kept" if ok else "REJECTED", res if not ok else "", "fired:", sorted(meta.get("checks_fired", {}).keys()), "machinery:", meta.get("checks_machinery"))

if __name__ == "__main__":
    main()
