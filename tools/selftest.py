#!/usr/bin/env python3
"""Re-run every seeded change against the check of the property it was written for (and, with --all,
against every check recorded as firing in its meta.json) and report changes that are no longer
detected. /repo is patched and restored for each seed (tools/try_patch.py).
usage: selftest.py [--all] [seed-name ...]"""
import json, glob, os, subprocess, sys, re

def main():
    args = sys.argv[1:]
    allc = False
    if args and args[0] == "--all":
        allc = True; args.pop(0)
    seeds = sorted(glob.glob("/verif/seeded/*/patch.diff"))
    if args:
        seeds = [s for s in seeds if os.path.basename(os.path.dirname(s)) in args]
    missed = []
    for patch in seeds:
        d = os.path.dirname(patch); name = os.path.basename(d)
        meta = json.load(open(d + "/meta.json"))
        target = meta.get("property")
        checks = sorted(set([target] + (list(meta.get("checks_fired", {}).keys()) if allc else [])))
        r = subprocess.run(["python3", "/verif/tools/try_patch.py", patch, "--no-tests"] + checks, capture_output=True, text=True)
        m = re.search(r"^RESULT (.*)$", r.stdout, re.M)
        if not m:
            print(name, "ERROR", r.stdout[-300:], r.stderr[-300:]); missed.append(name); continue
        res = json.loads(m.group(1))["checks"]
        fired = [c for c in checks if res[c]["state"] == "FIRED"]
        silent = [c for c in checks if res[c]["state"] != "FIRED"]
        ok = target in fired
        print(f"{name}: target {target} {'FIRED' if ok else 'MISSED'}" + (f"; no longer firing: {silent}" if silent and ok else ""))
        if not ok:
            missed.append(name)
    print("missed:", missed)
    sys.exit(1 if missed else 0)

if __name__ == "__main__":
    main()
