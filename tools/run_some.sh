#!/bin/bash
# run_some.sh <tier> <Cnn> ... : like run_all.sh for the listed properties
tier="$1"; shift
cd /verif
for p in "$@"; do
  out=$(./check "$p" "$tier" 2>&1); rc=$?
  echo "$out" | grep -E "^(VIOLATION|KNOWN-FINDING|machinery)" | head -5
  echo "$out" | tail -1 | sed "s/^/rc=$rc /"
done
