//! `vsync` — drop-in stand-ins for the parts of `std::sync` a codec library could plausibly use
//! (Mutex, RwLock, atomics, OnceLock, LazyLock, Once), with `const fn new` like std's, that call
//! a scheduling hook before every operation and never block the OS thread (contended locks spin
//! through a yield hook). The C19 instrumented-sync mode compiles a copy of the crate under test
//! in which `std::sync::` is textually replaced by `vsync::`, so that loom can explore
//! interleavings *inside* windows that contain no Reader/Writer call.
//!
//! Outside an exploration the hooks are unset and everything behaves like std.

use std::ops::{Deref, DerefMut};
use std::sync::atomic::AtomicUsize as StdAtomicUsize;
use std::sync::atomic::Ordering as O;

pub use std::sync::{Arc, LockResult, PoisonError, TryLockError, TryLockResult, Weak};
pub use std::sync::{mpsc, Barrier, BarrierWaitResult, Condvar, WaitTimeoutResult};

pub mod hooks {
    use super::*;
    static TICK: StdAtomicUsize = StdAtomicUsize::new(0);
    static SPIN: StdAtomicUsize = StdAtomicUsize::new(0);
    pub fn set(tick: fn(), spin: fn()) {
        TICK.store(tick as usize, O::SeqCst);
        SPIN.store(spin as usize, O::SeqCst);
    }
    pub fn clear() {
        TICK.store(0, O::SeqCst);
        SPIN.store(0, O::SeqCst);
    }
    #[inline]
    pub fn tick() {
        let f = TICK.load(O::Relaxed);
        if f != 0 {
            let f: fn() = unsafe { std::mem::transmute(f) };
            f();
        }
    }
    #[inline]
    pub fn spin() {
        let f = SPIN.load(O::Relaxed);
        if f != 0 {
            let f: fn() = unsafe { std::mem::transmute(f) };
            f();
        } else {
            std::thread::yield_now();
        }
    }
}

// ---- Mutex ---------------------------------------------------------------------------------------

#[derive(Debug, Default)]
pub struct Mutex<T: ?Sized> {
    inner: std::sync::Mutex<T>,
}

pub struct MutexGuard<'a, T: ?Sized + 'a> {
    inner: Option<std::sync::MutexGuard<'a, T>>,
}

impl<T> Mutex<T> {
    pub const fn new(t: T) -> Self {
        Mutex { inner: std::sync::Mutex::new(t) }
    }
    pub fn into_inner(self) -> LockResult<T> {
        self.inner.into_inner()
    }
}

impl<T: ?Sized> Mutex<T> {
    pub fn lock(&self) -> LockResult<MutexGuard<'_, T>> {
        loop {
            hooks::tick();
            match self.inner.try_lock() {
                Ok(g) => return Ok(MutexGuard { inner: Some(g) }),
                Err(std::sync::TryLockError::Poisoned(p)) => return Err(PoisonError::new(MutexGuard { inner: Some(p.into_inner()) })),
                Err(std::sync::TryLockError::WouldBlock) => hooks::spin(),
            }
        }
    }
    pub fn try_lock(&self) -> TryLockResult<MutexGuard<'_, T>> {
        hooks::tick();
        match self.inner.try_lock() {
            Ok(g) => Ok(MutexGuard { inner: Some(g) }),
            Err(std::sync::TryLockError::Poisoned(p)) => Err(TryLockError::Poisoned(PoisonError::new(MutexGuard { inner: Some(p.into_inner()) }))),
            Err(std::sync::TryLockError::WouldBlock) => Err(TryLockError::WouldBlock),
        }
    }
    pub fn is_poisoned(&self) -> bool {
        self.inner.is_poisoned()
    }
    pub fn clear_poison(&self) {
        self.inner.clear_poison()
    }
    pub fn get_mut(&mut self) -> LockResult<&mut T> {
        self.inner.get_mut()
    }
}

impl<T: ?Sized> Deref for MutexGuard<'_, T> {
    type Target = T;
    fn deref(&self) -> &T {
        self.inner.as_ref().unwrap()
    }
}
impl<T: ?Sized> DerefMut for MutexGuard<'_, T> {
    fn deref_mut(&mut self) -> &mut T {
        self.inner.as_mut().unwrap()
    }
}
impl<T: ?Sized> Drop for MutexGuard<'_, T> {
    fn drop(&mut self) {
        self.inner.take();
        // a scheduling point right after the release
        if !std::thread::panicking() {
            hooks::tick();
        }
    }
}
impl<T: ?Sized + std::fmt::Debug> std::fmt::Debug for MutexGuard<'_, T> {
    fn fmt(&self, f: &mut std::fmt::Formatter<'_>) -> std::fmt::Result {
        (**self).fmt(f)
    }
}

// ---- RwLock --------------------------------------------------------------------------------------

#[derive(Debug, Default)]
pub struct RwLock<T: ?Sized> {
    inner: std::sync::RwLock<T>,
}
pub struct RwLockReadGuard<'a, T: ?Sized + 'a> {
    inner: Option<std::sync::RwLockReadGuard<'a, T>>,
}
pub struct RwLockWriteGuard<'a, T: ?Sized + 'a> {
    inner: Option<std::sync::RwLockWriteGuard<'a, T>>,
}
impl<T> RwLock<T> {
    pub const fn new(t: T) -> Self {
        RwLock { inner: std::sync::RwLock::new(t) }
    }
    pub fn into_inner(self) -> LockResult<T> {
        self.inner.into_inner()
    }
}
impl<T: ?Sized> RwLock<T> {
    pub fn read(&self) -> LockResult<RwLockReadGuard<'_, T>> {
        loop {
            hooks::tick();
            match self.inner.try_read() {
                Ok(g) => return Ok(RwLockReadGuard { inner: Some(g) }),
                Err(std::sync::TryLockError::Poisoned(p)) => return Err(PoisonError::new(RwLockReadGuard { inner: Some(p.into_inner()) })),
                Err(std::sync::TryLockError::WouldBlock) => hooks::spin(),
            }
        }
    }
    pub fn write(&self) -> LockResult<RwLockWriteGuard<'_, T>> {
        loop {
            hooks::tick();
            match self.inner.try_write() {
                Ok(g) => return Ok(RwLockWriteGuard { inner: Some(g) }),
                Err(std::sync::TryLockError::Poisoned(p)) => return Err(PoisonError::new(RwLockWriteGuard { inner: Some(p.into_inner()) })),
                Err(std::sync::TryLockError::WouldBlock) => hooks::spin(),
            }
        }
    }
    pub fn get_mut(&mut self) -> LockResult<&mut T> {
        self.inner.get_mut()
    }
}
impl<T: ?Sized> Deref for RwLockReadGuard<'_, T> {
    type Target = T;
    fn deref(&self) -> &T {
        self.inner.as_ref().unwrap()
    }
}
impl<T: ?Sized> Drop for RwLockReadGuard<'_, T> {
    fn drop(&mut self) {
        self.inner.take();
        if !std::thread::panicking() {
            hooks::tick();
        }
    }
}
impl<T: ?Sized> Deref for RwLockWriteGuard<'_, T> {
    type Target = T;
    fn deref(&self) -> &T {
        self.inner.as_ref().unwrap()
    }
}
impl<T: ?Sized> DerefMut for RwLockWriteGuard<'_, T> {
    fn deref_mut(&mut self) -> &mut T {
        self.inner.as_mut().unwrap()
    }
}
impl<T: ?Sized> Drop for RwLockWriteGuard<'_, T> {
    fn drop(&mut self) {
        self.inner.take();
        if !std::thread::panicking() {
            hooks::tick();
        }
    }
}

// ---- Once / OnceLock / LazyLock ----------------------------------------------------------------------

#[derive(Debug)]
pub struct Once {
    inner: std::sync::Once,
}
impl Once {
    pub const fn new() -> Self {
        Once { inner: std::sync::Once::new() }
    }
    pub fn call_once<F: FnOnce()>(&self, f: F) {
        hooks::tick();
        self.inner.call_once(f);
        hooks::tick();
    }
    pub fn is_completed(&self) -> bool {
        hooks::tick();
        self.inner.is_completed()
    }
}

#[derive(Debug)]
pub struct OnceLock<T> {
    inner: std::sync::OnceLock<T>,
}
impl<T> OnceLock<T> {
    pub const fn new() -> Self {
        OnceLock { inner: std::sync::OnceLock::new() }
    }
    pub fn get(&self) -> Option<&T> {
        hooks::tick();
        self.inner.get()
    }
    pub fn set(&self, v: T) -> Result<(), T> {
        hooks::tick();
        self.inner.set(v)
    }
    pub fn get_or_init<F: FnOnce() -> T>(&self, f: F) -> &T {
        hooks::tick();
        let r = self.inner.get_or_init(f);
        hooks::tick();
        r
    }
    pub fn get_mut(&mut self) -> Option<&mut T> {
        self.inner.get_mut()
    }
    pub fn take(&mut self) -> Option<T> {
        self.inner.take()
    }
}
impl<T> Default for OnceLock<T> {
    fn default() -> Self {
        Self::new()
    }
}

pub struct LazyLock<T, F = fn() -> T> {
    inner: std::sync::LazyLock<T, F>,
}
impl<T, F: FnOnce() -> T> LazyLock<T, F> {
    pub const fn new(f: F) -> Self {
        LazyLock { inner: std::sync::LazyLock::new(f) }
    }
    pub fn force(this: &Self) -> &T {
        hooks::tick();
        std::sync::LazyLock::force(&this.inner)
    }
}
impl<T, F: FnOnce() -> T> Deref for LazyLock<T, F> {
    type Target = T;
    fn deref(&self) -> &T {
        hooks::tick();
        &self.inner
    }
}

// ---- atomics -------------------------------------------------------------------------------------

pub mod atomic {
    use super::hooks;
    pub use std::sync::atomic::{compiler_fence, fence, Ordering};

    macro_rules! atomic_int {
        ($name:ident, $t:ty) => {
            #[derive(Debug, Default)]
            pub struct $name {
                inner: std::sync::atomic::$name,
            }
            impl $name {
                pub const fn new(v: $t) -> Self {
                    Self { inner: std::sync::atomic::$name::new(v) }
                }
                pub fn load(&self, o: Ordering) -> $t {
                    hooks::tick();
                    self.inner.load(o)
                }
                pub fn store(&self, v: $t, o: Ordering) {
                    hooks::tick();
                    self.inner.store(v, o)
                }
                pub fn swap(&self, v: $t, o: Ordering) -> $t {
                    hooks::tick();
                    self.inner.swap(v, o)
                }
                pub fn compare_exchange(&self, c: $t, n: $t, s: Ordering, f: Ordering) -> Result<$t, $t> {
                    hooks::tick();
                    self.inner.compare_exchange(c, n, s, f)
                }
                pub fn compare_exchange_weak(&self, c: $t, n: $t, s: Ordering, f: Ordering) -> Result<$t, $t> {
                    hooks::tick();
                    self.inner.compare_exchange(c, n, s, f)
                }
                pub fn fetch_add(&self, v: $t, o: Ordering) -> $t {
                    hooks::tick();
                    self.inner.fetch_add(v, o)
                }
                pub fn fetch_sub(&self, v: $t, o: Ordering) -> $t {
                    hooks::tick();
                    self.inner.fetch_sub(v, o)
                }
                pub fn fetch_and(&self, v: $t, o: Ordering) -> $t {
                    hooks::tick();
                    self.inner.fetch_and(v, o)
                }
                pub fn fetch_or(&self, v: $t, o: Ordering) -> $t {
                    hooks::tick();
                    self.inner.fetch_or(v, o)
                }
                pub fn fetch_xor(&self, v: $t, o: Ordering) -> $t {
                    hooks::tick();
                    self.inner.fetch_xor(v, o)
                }
                pub fn fetch_max(&self, v: $t, o: Ordering) -> $t {
                    hooks::tick();
                    self.inner.fetch_max(v, o)
                }
                pub fn fetch_min(&self, v: $t, o: Ordering) -> $t {
                    hooks::tick();
                    self.inner.fetch_min(v, o)
                }
                pub fn fetch_update<F: FnMut($t) -> Option<$t>>(&self, s: Ordering, f: Ordering, g: F) -> Result<$t, $t> {
                    hooks::tick();
                    self.inner.fetch_update(s, f, g)
                }
                pub fn get_mut(&mut self) -> &mut $t {
                    self.inner.get_mut()
                }
                pub fn into_inner(self) -> $t {
                    self.inner.into_inner()
                }
            }
            impl From<$t> for $name {
                fn from(v: $t) -> Self {
                    Self::new(v)
                }
            }
        };
    }
    atomic_int!(AtomicU8, u8);
    atomic_int!(AtomicU16, u16);
    atomic_int!(AtomicU32, u32);
    atomic_int!(AtomicU64, u64);
    atomic_int!(AtomicUsize, usize);
    atomic_int!(AtomicI8, i8);
    atomic_int!(AtomicI16, i16);
    atomic_int!(AtomicI32, i32);
    atomic_int!(AtomicI64, i64);
    atomic_int!(AtomicIsize, isize);

    #[derive(Debug, Default)]
    pub struct AtomicBool {
        inner: std::sync::atomic::AtomicBool,
    }
    impl AtomicBool {
        pub const fn new(v: bool) -> Self {
            Self { inner: std::sync::atomic::AtomicBool::new(v) }
        }
        pub fn load(&self, o: Ordering) -> bool {
            hooks::tick();
            self.inner.load(o)
        }
        pub fn store(&self, v: bool, o: Ordering) {
            hooks::tick();
            self.inner.store(v, o)
        }
        pub fn swap(&self, v: bool, o: Ordering) -> bool {
            hooks::tick();
            self.inner.swap(v, o)
        }
        pub fn compare_exchange(&self, c: bool, n: bool, s: Ordering, f: Ordering) -> Result<bool, bool> {
            hooks::tick();
            self.inner.compare_exchange(c, n, s, f)
        }
        pub fn compare_exchange_weak(&self, c: bool, n: bool, s: Ordering, f: Ordering) -> Result<bool, bool> {
            hooks::tick();
            self.inner.compare_exchange(c, n, s, f)
        }
        pub fn fetch_and(&self, v: bool, o: Ordering) -> bool {
            hooks::tick();
            self.inner.fetch_and(v, o)
        }
        pub fn fetch_or(&self, v: bool, o: Ordering) -> bool {
            hooks::tick();
            self.inner.fetch_or(v, o)
        }
        pub fn fetch_xor(&self, v: bool, o: Ordering) -> bool {
            hooks::tick();
            self.inner.fetch_xor(v, o)
        }
        pub fn get_mut(&mut self) -> &mut bool {
            self.inner.get_mut()
        }
        pub fn into_inner(self) -> bool {
            self.inner.into_inner()
        }
    }

    #[derive(Debug)]
    pub struct AtomicPtr<T> {
        inner: std::sync::atomic::AtomicPtr<T>,
    }
    impl<T> AtomicPtr<T> {
        pub const fn new(p: *mut T) -> Self {
            Self { inner: std::sync::atomic::AtomicPtr::new(p) }
        }
        pub fn load(&self, o: Ordering) -> *mut T {
            hooks::tick();
            self.inner.load(o)
        }
        pub fn store(&self, p: *mut T, o: Ordering) {
            hooks::tick();
            self.inner.store(p, o)
        }
        pub fn swap(&self, p: *mut T, o: Ordering) -> *mut T {
            hooks::tick();
            self.inner.swap(p, o)
        }
        pub fn compare_exchange(&self, c: *mut T, n: *mut T, s: Ordering, f: Ordering) -> Result<*mut T, *mut T> {
            hooks::tick();
            self.inner.compare_exchange(c, n, s, f)
        }
    }
}
