/* LD_PRELOAD shim for C19 (e): records which parts of the process environment a process touches
 * (environment variables, clocks, randomness, working directory, files opened for writing,
 * sockets). The log file is named by VH_ENVLOG. Every wrapper forwards to the real function. */
#define _GNU_SOURCE
#include <dlfcn.h>
#include <fcntl.h>
#include <stdarg.h>
#include <stdio.h>
#include <string.h>
#include <sys/types.h>
#include <time.h>
#include <unistd.h>

static int log_fd = -2;
static __thread int busy = 0;

static void emit(const char *kind, const char *name) {
    if (busy) return;
    busy = 1;
    if (log_fd == -2) {
        char *(*real_getenv)(const char *) = dlsym(RTLD_NEXT, "getenv");
        const char *p = real_getenv ? real_getenv("VH_ENVLOG") : 0;
        int (*real_open)(const char *, int, ...) = dlsym(RTLD_NEXT, "open");
        log_fd = (p && real_open) ? real_open(p, O_WRONLY | O_CREAT | O_APPEND, 0644) : -1;
    }
    if (log_fd >= 0) {
        char buf[512];
        int n = snprintf(buf, sizeof buf, "%s %s\n", kind, name ? name : "");
        if (n > 0) {
            ssize_t (*real_write)(int, const void *, size_t) = dlsym(RTLD_NEXT, "write");
            if (real_write) real_write(log_fd, buf, (size_t)(n < (int)sizeof buf ? n : (int)sizeof buf - 1));
        }
    }
    busy = 0;
}

char *getenv(const char *name) {
    static char *(*real)(const char *);
    if (!real) real = dlsym(RTLD_NEXT, "getenv");
    emit("getenv", name);
    return real ? real(name) : 0;
}
char *secure_getenv(const char *name) {
    static char *(*real)(const char *);
    if (!real) real = dlsym(RTLD_NEXT, "secure_getenv");
    emit("getenv", name);
    return real ? real(name) : 0;
}
int clock_gettime(clockid_t c, struct timespec *ts) {
    static int (*real)(clockid_t, struct timespec *);
    if (!real) real = dlsym(RTLD_NEXT, "clock_gettime");
    emit("clock", c == CLOCK_REALTIME ? "realtime" : "monotonic-or-other");
    return real(c, ts);
}
time_t time(time_t *t) {
    static time_t (*real)(time_t *);
    if (!real) real = dlsym(RTLD_NEXT, "time");
    emit("clock", "time");
    return real(t);
}
int gettimeofday(struct timeval *tv, void *tz) {
    static int (*real)(struct timeval *, void *);
    if (!real) real = dlsym(RTLD_NEXT, "gettimeofday");
    emit("clock", "gettimeofday");
    return real(tv, tz);
}
ssize_t getrandom(void *buf, size_t n, unsigned int flags) {
    static ssize_t (*real)(void *, size_t, unsigned int);
    if (!real) real = dlsym(RTLD_NEXT, "getrandom");
    emit("random", "getrandom");
    return real(buf, n, flags);
}
char *getcwd(char *buf, size_t n) {
    static char *(*real)(char *, size_t);
    if (!real) real = dlsym(RTLD_NEXT, "getcwd");
    emit("cwd", "getcwd");
    return real(buf, n);
}
int socket(int d, int t, int p) {
    static int (*real)(int, int, int);
    if (!real) real = dlsym(RTLD_NEXT, "socket");
    emit("socket", "socket");
    return real(d, t, p);
}
static void note_open(const char *path, int flags) {
    if ((flags & O_ACCMODE) != O_RDONLY || (flags & O_CREAT)) emit("open-for-writing", path);
    else emit("open-for-reading", path);
}
int open(const char *path, int flags, ...) {
    static int (*real)(const char *, int, ...);
    if (!real) real = dlsym(RTLD_NEXT, "open");
    va_list ap; va_start(ap, flags); int mode = va_arg(ap, int); va_end(ap);
    note_open(path, flags);
    return real(path, flags, mode);
}
int open64(const char *path, int flags, ...) {
    static int (*real)(const char *, int, ...);
    if (!real) real = dlsym(RTLD_NEXT, "open64");
    va_list ap; va_start(ap, flags); int mode = va_arg(ap, int); va_end(ap);
    note_open(path, flags);
    return real(path, flags, mode);
}
int openat(int fd, const char *path, int flags, ...) {
    static int (*real)(int, const char *, int, ...);
    if (!real) real = dlsym(RTLD_NEXT, "openat");
    va_list ap; va_start(ap, flags); int mode = va_arg(ap, int); va_end(ap);
    note_open(path, flags);
    return real(fd, path, flags, mode);
}
int openat64(int fd, const char *path, int flags, ...) {
    static int (*real)(int, const char *, int, ...);
    if (!real) real = dlsym(RTLD_NEXT, "openat64");
    va_list ap; va_start(ap, flags); int mode = va_arg(ap, int); va_end(ap);
    note_open(path, flags);
    return real(fd, path, flags, mode);
}
