//! C19 instrumented-sync mode: loom exploration of pairs of library calls on two threads against
//! a copy of the crate under test whose `std::sync` primitives were replaced by `vsync` ones
//! (scheduling point before every lock / unlock / atomic operation, never blocking), in addition
//! to the scheduling points at every Reader / Writer trait call.
//!
//! usage: vh_sync <inputs.json> <preemption bound> [pair i j]
//! prints one JSON object: schedules explored, per pair, mismatches.

use rl2tp_sync::avp::types::RandomVector;
use rl2tp_sync::avp::AVP;
use rl2tp_sync::common::{Reader, Writer};
use rl2tp_sync::{Message, ValidateReserved, ValidateUnused, ValidateVersion, ValidationOptions};
use std::cell::RefCell;
use std::panic::{catch_unwind, AssertUnwindSafe};
use std::sync::atomic::{AtomicU64, Ordering};
use std::sync::Mutex;

thread_local! {
    static CURRENT: RefCell<Option<loom::sync::Arc<loom::sync::atomic::AtomicUsize>>> = const { RefCell::new(None) };
}

fn tick() {
    let a = CURRENT.with(|c| c.borrow().clone());
    if let Some(a) = a {
        a.fetch_add(1, loom::sync::atomic::Ordering::SeqCst);
    }
}
fn spin() {
    let active = CURRENT.with(|c| c.borrow().is_some());
    if active {
        loom::thread::yield_now();
    } else {
        std::thread::yield_now();
    }
}

struct SeamReader<'a> {
    data: &'a [u8],
}
impl<'a> SeamReader<'a> {
    fn take(&mut self, n: usize) -> &'a [u8] {
        let n = n.min(self.data.len());
        let (a, b) = self.data.split_at(n);
        self.data = b;
        a
    }
    fn num(&mut self, n: usize) -> u64 {
        tick();
        self.take(n).iter().fold(0u64, |a, x| (a << 8) | *x as u64)
    }
}
impl<'a> Reader<&'a [u8]> for SeamReader<'a> {
    fn is_empty(&self) -> bool {
        self.data.is_empty()
    }
    fn len(&self) -> usize {
        self.data.len()
    }
    fn subreader(&mut self, length: usize) -> Self {
        tick();
        SeamReader { data: self.take(length) }
    }
    fn bytes(&mut self, length: usize) -> Option<&'a [u8]> {
        tick();
        if length > self.data.len() {
            return None;
        }
        Some(self.take(length))
    }
    unsafe fn read_u8_unchecked(&mut self) -> u8 {
        self.num(1) as u8
    }
    unsafe fn read_u16_be_unchecked(&mut self) -> u16 {
        self.num(2) as u16
    }
    unsafe fn read_u32_be_unchecked(&mut self) -> u32 {
        self.num(4) as u32
    }
    unsafe fn read_u64_be_unchecked(&mut self) -> u64 {
        self.num(8)
    }
    fn skip_bytes(&mut self, length: usize) {
        tick();
        self.take(length);
    }
}

struct SeamWriter {
    data: Vec<u8>,
}
impl Writer for SeamWriter {
    fn is_empty(&self) -> bool {
        self.data.is_empty()
    }
    fn len(&self) -> usize {
        self.data.len()
    }
    fn write_bytes(&mut self, bytes: &[u8]) {
        tick();
        self.data.extend_from_slice(bytes);
    }
    fn write_bytes_at(&mut self, bytes: &[u8], offset: usize) {
        tick();
        if offset + bytes.len() <= self.data.len() {
            self.data[offset..offset + bytes.len()].copy_from_slice(bytes);
        }
    }
    fn write_u8(&mut self, v: u8) {
        tick();
        self.data.push(v);
    }
    fn write_u16_be(&mut self, v: u16) {
        tick();
        self.data.extend_from_slice(&v.to_be_bytes());
    }
    fn write_u32_be(&mut self, v: u32) {
        tick();
        self.data.extend_from_slice(&v.to_be_bytes());
    }
    fn write_u64_be(&mut self, v: u64) {
        tick();
        self.data.extend_from_slice(&v.to_be_bytes());
    }
}

fn strict() -> ValidationOptions {
    ValidationOptions {
        reserved: ValidateReserved::Yes,
        version: ValidateVersion::Yes,
        unused: ValidateUnused::Yes,
    }
}

fn hex(b: &[u8]) -> String {
    b.iter().map(|x| format!("{x:02x}")).collect()
}

const N_CALLS: usize = 12;
const NAMES: [&str; N_CALLS] = [
    "decode-control-ok",
    "decode-control-bad-avps",
    "decode-control-message-type-0",
    "decode-zlb",
    "decode-data",
    "decode-avps",
    "encode-control",
    "encode-data",
    "encode-avp",
    "hide",
    "reveal-ok",
    "reveal-wrong-key",
];

fn first_avp(bytes: &[u8]) -> AVP {
    let mut r = SeamReader { data: bytes };
    AVP::try_read_greedy(&mut r).into_iter().next().expect("an AVP").expect("a good AVP")
}

fn call(i: usize, ins: &[Vec<u8>]) -> String {
    let r = catch_unwind(AssertUnwindSafe(|| match i {
        0..=4 => {
            let mut r = SeamReader { data: &ins[i] };
            let out = Message::<&[u8]>::try_read_validate(&mut r, strict());
            format!("{out:?} rem={}", r.len())
        }
        5 => {
            let mut r = SeamReader { data: &ins[5] };
            let out = AVP::try_read_greedy(&mut r);
            let shown: Vec<String> = out
                .iter()
                .map(|x| match x {
                    Ok(a) => format!("{a:?}"),
                    Err(e) => format!("Err({e:?} / {e})"),
                })
                .collect();
            format!("{shown:?}")
        }
        6 | 7 => {
            let src = if i == 6 { &ins[0] } else { &ins[4] };
            let mut r = SeamReader { data: src };
            let m = Message::<&[u8]>::try_read_validate(&mut r, strict()).expect("source message decodes");
            let mut w = SeamWriter { data: vec![0xaa] };
            m.write(&mut w);
            hex(&w.data)
        }
        8 => {
            let a = first_avp(&ins[6]);
            let mut w = SeamWriter { data: vec![1, 2, 3] };
            a.write(&mut w);
            hex(&w.data)
        }
        9 => {
            tick();
            let a = first_avp(&ins[6]);
            format!("{:?}", a.hide(b"secret", &RandomVector::from([1, 2, 3, 4]), &[9, 9, 9], &[7u8; 16]))
        }
        10 => {
            tick();
            let other = first_avp(&ins[7]);
            let h2 = other.hide(b"secret", &RandomVector::from([1, 2, 3, 4]), &[4, 4], &[6u8; 16]);
            let shown = format!("{h2:?}");
            let a = first_avp(&ins[6]);
            let h = a.hide(b"secret", &RandomVector::from([1, 2, 3, 4]), &[9, 9, 9], &[7u8; 16]);
            format!("{shown} / {:?} / {:?}", h2.reveal(b"secret", &RandomVector::from([1, 2, 3, 4])), h.reveal(b"secret", &RandomVector::from([1, 2, 3, 4])))
        }
        _ => {
            tick();
            let a = first_avp(&ins[7]);
            let h = a.hide(b"Secret", &RandomVector::from([9, 8, 7, 6]), &[5], &[3u8; 16]);
            let shown = format!("{h:?}");
            let b = first_avp(&ins[6]).hide(b"secret", &RandomVector::from([1, 2, 3, 4]), &[9, 9, 9], &[7u8; 16]);
            format!("{shown} / {:?} / {:?}", h.reveal(b"Secret", &RandomVector::from([9, 8, 7, 6])), b.reveal(b"Secret", &RandomVector::from([1, 2, 3, 4])))
        }
    }));
    match r {
        Ok(s) => s,
        Err(_) => "PANIC".to_string(),
    }
}

static SCHEDULES: AtomicU64 = AtomicU64::new(0);
static MISMATCH: Mutex<Option<String>> = Mutex::new(None);

fn explore(group: &[usize], ins: &[Vec<u8>], base: &[String], bound: usize) -> (u64, Option<String>) {
    SCHEDULES.store(0, Ordering::Relaxed);
    *MISMATCH.lock().unwrap() = None;
    let mut b = loom::model::Builder::new();
    b.preemption_bound = Some(bound);
    b.max_branches = 200_000;
    b.max_duration = Some(std::time::Duration::from_secs(30));
    let ins: Vec<Vec<u8>> = ins.to_vec();
    let base: Vec<String> = base.to_vec();
    let group: Vec<usize> = group.to_vec();
    let res = catch_unwind(AssertUnwindSafe(move || {
        b.check(move || {
            SCHEDULES.fetch_add(1, Ordering::Relaxed);
            let seam = loom::sync::Arc::new(loom::sync::atomic::AtomicUsize::new(0));
            CURRENT.with(|c| *c.borrow_mut() = Some(seam.clone()));
            let mut hs = Vec::new();
            for &j in &group[1..] {
                let ins2 = ins.clone();
                hs.push((j, loom::thread::spawn(move || call(j, &ins2))));
            }
            let mut results = vec![(group[0], call(group[0], &ins))];
            for (j, h) in hs {
                results.push((j, h.join().unwrap()));
            }
            CURRENT.with(|c| *c.borrow_mut() = None);
            for (i, r) in results {
                if r != base[i] {
                    let mut m = MISMATCH.lock().unwrap();
                    if m.is_none() {
                        let clip = |s: &str| if s.len() > 300 { format!("{}…", &s[..300]) } else { s.to_string() };
                        *m = Some(format!("schedule #{}: {} returned {} ; sequentially it returns {}", SCHEDULES.load(Ordering::Relaxed), NAMES[i], clip(&r), clip(&base[i])));
                    }
                }
            }
        })
    }));
    CURRENT.with(|c| *c.borrow_mut() = None);
    let mut mm = MISMATCH.lock().unwrap().take();
    if res.is_err() && mm.is_none() {
        mm = Some("loom aborted the exploration (panic or deadlock inside the model)".to_string());
    }
    (SCHEDULES.load(Ordering::Relaxed), mm)
}

fn main() {
    let args: Vec<String> = std::env::args().collect();
    let text = std::fs::read_to_string(&args[1]).expect("inputs file");
    let v: serde_json::Value = serde_json::from_str(&text).expect("inputs json");
    let ins: Vec<Vec<u8>> = v
        .as_array()
        .expect("array")
        .iter()
        .map(|h| {
            let s = h.as_str().unwrap();
            (0..s.len() / 2).map(|i| u8::from_str_radix(&s[2 * i..2 * i + 2], 16).unwrap()).collect()
        })
        .collect();
    let bound: usize = args.get(2).and_then(|s| s.parse().ok()).unwrap_or(2);
    std::panic::set_hook(Box::new(|_| {}));
    vsync::hooks::set(tick, spin);
    // sequential baseline: each call alone on the only thread of a loom model (loom's
    // thread_local! and lazy statics only exist inside a model)
    let baseline = |ins: &Vec<Vec<u8>>| -> Vec<String> {
        (0..N_CALLS)
            .map(|i| {
                let out = std::sync::Arc::new(Mutex::new(String::new()));
                let (o2, ins2) = (out.clone(), ins.clone());
                let r = catch_unwind(AssertUnwindSafe(move || {
                    loom::model(move || {
                        let seam = loom::sync::Arc::new(loom::sync::atomic::AtomicUsize::new(0));
                        CURRENT.with(|c| *c.borrow_mut() = Some(seam));
                        let s = call(i, &ins2);
                        CURRENT.with(|c| *c.borrow_mut() = None);
                        *o2.lock().unwrap() = s;
                    })
                }));
                CURRENT.with(|c| *c.borrow_mut() = None);
                if r.is_err() {
                    return "BASELINE-ABORTED".to_string();
                }
                let s = out.lock().unwrap().clone();
                s
            })
            .collect()
    };
    let base = baseline(&ins);
    // the baseline must be stable (the same call again, after all the others)
    let again = baseline(&ins);
    let mut per_pair = serde_json::Map::new();
    let mut mismatches = Vec::new();
    let mut total = 0u64;
    // groups: every unordered pair, then triples around hide/reveal and around the decoders
    let mut groups: Vec<Vec<usize>> = Vec::new();
    for i in 0..N_CALLS {
        for j in i..N_CALLS {
            groups.push(vec![i, j]);
        }
    }
    for t in [[9usize, 10, 11], [9, 9, 10], [10, 10, 11], [9, 9, 9], [0, 1, 5], [1, 1, 2], [6, 7, 8]] {
        groups.push(t.to_vec());
    }
    let only: Option<Vec<usize>> = if args.len() >= 5 && args[3] == "group" { Some(args[4..].iter().map(|x| x.parse().unwrap()).collect()) } else { None };
    for g in groups {
        if let Some(o) = &only {
            if *o != g {
                continue;
            }
        }
        let b = if g.len() == 3 { bound.min(2) } else { bound };
        let (n, mm) = explore(&g, &ins, &base, b);
        total += n;
        per_pair.insert(g.iter().map(|i| NAMES[*i]).collect::<Vec<_>>().join(" || "), serde_json::json!(n));
        if let Some(m) = mm {
            mismatches.push(serde_json::json!({"pair":g,"names":g.iter().map(|i| NAMES[*i]).collect::<Vec<_>>(),"detail":m}));
        }
    }
    let out = serde_json::json!({
        "schedules": total,
        "per_pair": per_pair,
        "mismatches": mismatches,
        "baseline_stable": base == again,
        "bound": bound,
    });
    println!("{out}");
}
