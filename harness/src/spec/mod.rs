//! Executable reference specification of the L2TPv2 wire layout (RFC 2661 §3.1, §4.1–4.4) with
//! the bit-numbering conventions the properties adopt (DESIGN.md §2.1). Plain Rust, own value
//! types, shares no code with the crate under test.

pub mod md5;

use serde_json::{json, Value};

pub const OPT_RESERVED: u8 = 1;
pub const OPT_VERSION: u8 = 2;
pub const OPT_UNUSED: u8 = 4;
pub const OPT_STRICT: u8 = 7;
/// what `Message::try_read` is documented to do: version only
pub const OPT_DEFAULT: u8 = OPT_VERSION;

// message flag word, bits numbered from the LSB of the big-endian u16 of the first two octets
pub const F_T: u16 = 1 << 8;
pub const F_L: u16 = 1 << 9;
pub const F_S: u16 = 1 << 12;
pub const F_O: u16 = 1 << 14;
pub const F_P: u16 = 1 << 15;
pub const F_RESERVED: u16 = 0b0010_1100_0000_1111; // bits 0,1,2,3,10,11,13
pub const F_VER_SHIFT: u16 = 4;
pub const F_CANON_CONTROL: u16 = F_T | F_L | F_S | (2 << 4); // 0x1320

pub const MESSAGE_TYPE_CODES: [u16; 14] = [1, 2, 3, 4, 6, 7, 8, 9, 10, 11, 12, 14, 15, 16];
pub const MESSAGE_TYPE_NAMES: [&str; 14] = [
    "StartControlConnectionRequest",
    "StartControlConnectionReply",
    "StartControlConnectionConnected",
    "StopControlConnectionNotification",
    "Hello",
    "OutgoingCallRequest",
    "OutgoingCallReply",
    "OutgoingCallConnected",
    "IncomingCallRequest",
    "IncomingCallReply",
    "IncomingCallConnected",
    "CallDisconnectNotify",
    "WanErrorNotify",
    "SetLinkInfo",
];
pub const ERROR_TYPE_MAX: u16 = 8; // general error codes 0..=8 (RFC 2661 §4.4.2)
pub const PROXY_AUTHEN_TYPE_MAX: u16 = 5; // 0..=5 (RFC 2661 §4.4.5)
pub const STOP_CCN_MAX: u16 = 7;
pub const CDN_MAX: u16 = 11;

pub fn message_type_ok(code: u16) -> bool {
    MESSAGE_TYPE_CODES.contains(&code)
}

#[derive(Clone, Copy, Debug, PartialEq, Eq, Hash)]
pub enum Kind {
    MessageType,
    ResultCode,
    ProtoVer,
    Bits,
    U16,
    U32,
    U64,
    Bytes,
    Str,
    Fix4,
    Fix16,
    Q931,
    PAType,
    PAId,
    CallErrors,
    Accm,
    Empty,
}

/// attribute number -> (payload format, name of the crate's AVP variant). Typed in from RFC 2661 §4.4.
pub fn kind_of(attr: u16) -> Option<(Kind, &'static str)> {
    use Kind::*;
    Some(match attr {
        0 => (MessageType, "MessageType"),
        1 => (ResultCode, "ResultCode"),
        2 => (ProtoVer, "ProtocolVersion"),
        3 => (Bits, "FramingCapabilities"),
        4 => (Bits, "BearerCapabilities"),
        5 => (U64, "TieBreaker"),
        6 => (U16, "FirmwareRevision"),
        7 => (Bytes, "HostName"),
        8 => (Str, "VendorName"),
        9 => (U16, "AssignedTunnelId"),
        10 => (U16, "ReceiveWindowSize"),
        11 => (Bytes, "Challenge"),
        12 => (Q931, "Q931CauseCode"),
        13 => (Fix16, "ChallengeResponse"),
        14 => (U16, "AssignedSessionId"),
        15 => (U32, "CallSerialNumber"),
        16 => (U32, "MinimumBps"),
        17 => (U32, "MaximumBps"),
        18 => (Bits, "BearerType"),
        19 => (Bits, "FramingType"),
        21 => (Str, "CalledNumber"),
        22 => (Str, "CallingNumber"),
        23 => (Str, "SubAddress"),
        24 => (U32, "TxConnectSpeed"),
        25 => (Fix4, "PhysicalChannelId"),
        26 => (Bytes, "InitialReceivedLcpConfReq"),
        27 => (Bytes, "LastSentLcpConfReq"),
        28 => (Bytes, "LastReceivedLcpConfReq"),
        29 => (PAType, "ProxyAuthenType"),
        30 => (Bytes, "ProxyAuthenName"),
        31 => (Bytes, "ProxyAuthenChallenge"),
        32 => (PAId, "ProxyAuthenId"),
        33 => (Bytes, "ProxyAuthenResponse"),
        34 => (CallErrors, "CallErrors"),
        35 => (Accm, "Accm"),
        36 => (Fix4, "RandomVector"),
        37 => (Bytes, "PrivateGroupId"),
        38 => (U32, "RxConnectSpeed"),
        39 => (Empty, "SequencingRequired"),
        _ => return None,
    })
}

pub const ALL_ATTRS: [u16; 39] = [
    0, 1, 2, 3, 4, 5, 6, 7, 8, 9, 10, 11, 12, 13, 14, 15, 16, 17, 18, 19, 21, 22, 23, 24, 25, 26,
    27, 28, 29, 30, 31, 32, 33, 34, 35, 36, 37, 38, 39,
];

/// minimum payload octets for the kind to be decodable
pub fn min_payload(k: Kind) -> usize {
    use Kind::*;
    match k {
        MessageType | ResultCode | ProtoVer | U16 | PAType | PAId => 2,
        Bits | U32 | Fix4 => 4,
        U64 => 8,
        Bytes | Str => 1,
        Fix16 => 16,
        Q931 => 3,
        CallErrors => 26,
        Accm => 10,
        Empty => 0,
    }
}

#[derive(Clone, Debug, PartialEq, Eq, Hash)]
pub enum SVal {
    MessageType(u16),
    ResultCode {
        code: u16,
        error: Option<(u16, Option<String>)>,
    },
    ProtoVer(u8, u8),
    Bits(u32),
    U16(u16),
    U32(u32),
    U64(u64),
    Bytes(Vec<u8>),
    Str(String),
    Fix4([u8; 4]),
    Fix16([u8; 16]),
    Q931 {
        code: u16,
        msg: u8,
        adv: Option<String>,
    },
    PAType(u16),
    PAId(u8),
    CallErrors([u32; 6]),
    Accm([u8; 4], [u8; 4]),
    Empty,
}

#[derive(Clone, Debug, PartialEq, Eq, Hash)]
pub enum SAvp {
    Hidden { attr: u16, value: Vec<u8> },
    Plain { attr: u16, val: SVal },
}

impl SAvp {
    pub fn attr(&self) -> u16 {
        match self {
            SAvp::Hidden { attr, .. } | SAvp::Plain { attr, .. } => *attr,
        }
    }
    pub fn is_hidden(&self) -> bool {
        matches!(self, SAvp::Hidden { .. })
    }
}

#[derive(Clone, Debug, PartialEq, Eq, Hash)]
pub enum SMessage {
    Control {
        length: u16,
        tid: u16,
        sid: u16,
        ns: u16,
        nr: u16,
        avps: Vec<SAvp>,
    },
    Data {
        prio: bool,
        length: Option<u16>,
        tid: u16,
        sid: u16,
        ns_nr: Option<(u16, u16)>,
        offset: Option<u16>,
        data: Vec<u8>,
    },
}

/// Why a single AVP record is undecodable. `Display`-level error variants are only pinned
/// where a property pins them (C15 per-record attribution, C20 single faults).
#[derive(Clone, Debug, PartialEq, Eq, Hash)]
pub enum AvpRej {
    /// length field < 6 or payload longer than what remains; parsing stops here. Carries the
    /// raw 10-bit length.
    BadLength(u16),
    Vendor(u16),
    Unknown(u16),
    Incomplete(u16),
    BadMessageType(u16),
    BadErrorType(u16),
    BadProxyAuthenType(u16),
    Utf8(u16),
}

#[derive(Clone, Debug, PartialEq, Eq, Hash)]
pub enum Rej {
    IncompleteFlags,
    Version(u8),
    Reserved,
    CtlPriority,
    CtlOffset,
    CtlNoLength,
    CtlNoNsNr,
    CtlHeaderShort,
    CtlLengthBelowHeader(u16),
    CtlLengthBeyondInput(u16),
    CtlFirstNotMessageType,
    Avps(Vec<AvpRej>),
    DataHeaderShort,
    DataOffset(u16),
    DataLengthBelowHeader(u16),
    DataLengthBeyondInput(u16),
    DataEmpty,
}

#[derive(Clone, Debug, PartialEq, Eq)]
pub enum Verdict {
    Accept(SMessage),
    Reject(Rej),
    /// either outcome is acceptable; if the implementation accepts, the value must be this one
    Unspecified(SMessage),
}

#[derive(Clone, Debug, PartialEq, Eq)]
pub struct Decoded {
    pub verdict: Verdict,
    /// octets consumed from the input on accept (declared length, or everything)
    pub consumed: usize,
    /// one past the last input offset that may influence the result (`declared end`)
    pub relevant_end: usize,
}

fn be16(b: &[u8], i: usize) -> u16 {
    ((b[i] as u16) << 8) | b[i + 1] as u16
}
fn be32(b: &[u8], i: usize) -> u32 {
    ((b[i] as u32) << 24) | ((b[i + 1] as u32) << 16) | ((b[i + 2] as u32) << 8) | b[i + 3] as u32
}
fn be64(b: &[u8], i: usize) -> u64 {
    ((be32(b, i) as u64) << 32) | be32(b, i + 4) as u64
}

/// Own UTF-8 validator (Unicode Standard table 3-7, well-formed UTF-8 byte sequences).
pub fn utf8_ok(b: &[u8]) -> bool {
    let mut i = 0;
    let n = b.len();
    while i < n {
        let c = b[i];
        let (need, lo, hi) = match c {
            0x00..=0x7f => {
                i += 1;
                continue;
            }
            0xc2..=0xdf => (1, 0x80, 0xbf),
            0xe0 => (2, 0xa0, 0xbf),
            0xe1..=0xec | 0xee..=0xef => (2, 0x80, 0xbf),
            0xed => (2, 0x80, 0x9f),
            0xf0 => (3, 0x90, 0xbf),
            0xf1..=0xf3 => (3, 0x80, 0xbf),
            0xf4 => (3, 0x80, 0x8f),
            _ => return false,
        };
        if i + need >= n {
            // not enough continuation octets
            return false;
        }
        let second = b[i + 1];
        if second < lo || second > hi {
            return false;
        }
        for k in 2..=need {
            let x = b[i + k];
            if !(0x80..=0xbf).contains(&x) {
                return false;
            }
        }
        i += need + 1;
    }
    true
}

fn utf8_string(b: &[u8]) -> Option<String> {
    if utf8_ok(b) {
        // utf8_ok established validity; the conversion itself is std's
        Some(String::from_utf8(b.to_vec()).expect("spec utf8 validator disagrees with std"))
    } else {
        None
    }
}

pub fn decode_payload(attr: u16, p: &[u8]) -> Result<SVal, AvpRej> {
    let (kind, _) = kind_of(attr).ok_or(AvpRej::Unknown(attr))?;
    if p.len() < min_payload(kind) {
        return Err(AvpRej::Incomplete(attr));
    }
    Ok(match kind {
        Kind::MessageType => {
            let c = be16(p, 0);
            if !message_type_ok(c) {
                return Err(AvpRej::BadMessageType(c));
            }
            SVal::MessageType(c)
        }
        Kind::ResultCode => {
            let code = be16(p, 0);
            let error = if p.len() - 2 >= 2 {
                let et = be16(p, 2);
                if et > ERROR_TYPE_MAX {
                    return Err(AvpRej::BadErrorType(et));
                }
                let msg = if p.len() > 4 {
                    Some(utf8_string(&p[4..]).ok_or(AvpRej::Utf8(attr))?)
                } else {
                    None
                };
                Some((et, msg))
            } else {
                None
            };
            SVal::ResultCode { code, error }
        }
        Kind::ProtoVer => SVal::ProtoVer(p[0], p[1]),
        Kind::Bits => SVal::Bits(be32(p, 0)),
        Kind::U16 => SVal::U16(be16(p, 0)),
        Kind::U32 => SVal::U32(be32(p, 0)),
        Kind::U64 => SVal::U64(be64(p, 0)),
        Kind::Bytes => SVal::Bytes(p.to_vec()),
        Kind::Str => SVal::Str(utf8_string(p).ok_or(AvpRej::Utf8(attr))?),
        Kind::Fix4 => SVal::Fix4([p[0], p[1], p[2], p[3]]),
        Kind::Fix16 => {
            let mut a = [0u8; 16];
            a.copy_from_slice(&p[..16]);
            SVal::Fix16(a)
        }
        Kind::Q931 => {
            let adv = if p.len() > 3 {
                Some(utf8_string(&p[3..]).ok_or(AvpRej::Utf8(attr))?)
            } else {
                None
            };
            SVal::Q931 {
                code: be16(p, 0),
                msg: p[2],
                adv,
            }
        }
        Kind::PAType => {
            let c = be16(p, 0);
            if c > PROXY_AUTHEN_TYPE_MAX {
                return Err(AvpRej::BadProxyAuthenType(c));
            }
            SVal::PAType(c)
        }
        Kind::PAId => SVal::PAId(p[1]),
        Kind::CallErrors => {
            let mut a = [0u32; 6];
            for (i, x) in a.iter_mut().enumerate() {
                *x = be32(p, 2 + 4 * i);
            }
            SVal::CallErrors(a)
        }
        Kind::Accm => SVal::Accm([p[2], p[3], p[4], p[5]], [p[6], p[7], p[8], p[9]]),
        Kind::Empty => SVal::Empty,
    })
}

/// One element of a decoded AVP list together with the input range it came from.
#[derive(Clone, Debug, PartialEq, Eq)]
pub struct AvpItem {
    pub res: Result<SAvp, AvpRej>,
    pub start: usize,
    pub end: usize,
}

/// Greedy AVP list decode (RFC 2661 §4.1). Returns the items and the number of octets the
/// list parser looks at (stray 1–5 octets at the end are not looked at).
pub fn decode_avps(b: &[u8]) -> (Vec<AvpItem>, usize) {
    let mut out = Vec::new();
    let mut i = 0usize;
    loop {
        if b.len() - i < 6 {
            return (out, i);
        }
        let o1 = b[i];
        let len = (((o1 >> 6) as u16) << 8) | b[i + 1] as u16;
        let vendor = be16(b, i + 2);
        let attr = be16(b, i + 4);
        if len < 6 || (len as usize - 6) > b.len() - (i + 6) {
            out.push(AvpItem {
                res: Err(AvpRej::BadLength(len)),
                start: i,
                end: i + 6,
            });
            return (out, i + 6);
        }
        let end = i + len as usize;
        let payload = &b[i + 6..end];
        let res = if vendor != 0 {
            Err(AvpRej::Vendor(vendor))
        } else if o1 & 0x02 != 0 {
            Ok(SAvp::Hidden {
                attr,
                value: payload.to_vec(),
            })
        } else {
            decode_payload(attr, payload).map(|val| SAvp::Plain { attr, val })
        };
        out.push(AvpItem { res, start: i, end });
        i = end;
    }
}

pub fn version_of(flags: u16) -> u8 {
    ((flags >> F_VER_SHIFT) & 0xf) as u8
}

pub fn decode(b: &[u8], opts: u8) -> Decoded {
    let rej = |r: Rej, rel: usize| Decoded {
        verdict: Verdict::Reject(r),
        consumed: 0,
        relevant_end: rel,
    };
    if b.len() < 2 {
        return rej(Rej::IncompleteFlags, b.len());
    }
    let flags = be16(b, 0);
    if opts & OPT_VERSION != 0 && version_of(flags) != 2 {
        return rej(Rej::Version(version_of(flags)), 2);
    }
    if opts & OPT_RESERVED != 0 && flags & F_RESERVED != 0 {
        return rej(Rej::Reserved, 2);
    }
    if flags & F_T != 0 {
        // control message
        if opts & OPT_UNUSED != 0 {
            if flags & F_P != 0 {
                return rej(Rej::CtlPriority, 2);
            }
            if flags & F_O != 0 {
                return rej(Rej::CtlOffset, 2);
            }
        }
        if flags & F_L == 0 {
            return rej(Rej::CtlNoLength, 2);
        }
        if flags & F_S == 0 {
            return rej(Rej::CtlNoNsNr, 2);
        }
        if b.len() < 12 {
            return rej(Rej::CtlHeaderShort, b.len());
        }
        let length = be16(b, 2);
        let (tid, sid, ns, nr) = (be16(b, 4), be16(b, 6), be16(b, 8), be16(b, 10));
        if length < 12 {
            return rej(Rej::CtlLengthBelowHeader(length), 12);
        }
        if length as usize > b.len() {
            return rej(Rej::CtlLengthBeyondInput(length), b.len());
        }
        let end = length as usize;
        let (items, _) = decode_avps(&b[12..end]);
        if let Some(first) = items.first() {
            match &first.res {
                Ok(SAvp::Plain { attr: 0, .. }) => (),
                _ => return rej(Rej::CtlFirstNotMessageType, end),
            }
        }
        let errs: Vec<AvpRej> = items.iter().filter_map(|x| x.res.clone().err()).collect();
        if !errs.is_empty() {
            return rej(Rej::Avps(errs), end);
        }
        let avps = items.into_iter().map(|x| x.res.unwrap()).collect();
        Decoded {
            verdict: Verdict::Accept(SMessage::Control {
                length,
                tid,
                sid,
                ns,
                nr,
                avps,
            }),
            consumed: end,
            relevant_end: end,
        }
    } else {
        // data message
        let has_l = flags & F_L != 0;
        let has_s = flags & F_S != 0;
        let has_o = flags & F_O != 0;
        let hdr = 2 + 4 + if has_l { 2 } else { 0 } + if has_s { 4 } else { 0 } + if has_o { 2 } else { 0 };
        if b.len() < hdr {
            return rej(Rej::DataHeaderShort, b.len());
        }
        let mut i = 2;
        let length = if has_l {
            i += 2;
            Some(be16(b, i - 2))
        } else {
            None
        };
        let tid = be16(b, i);
        let sid = be16(b, i + 2);
        i += 4;
        let ns_nr = if has_s {
            i += 4;
            Some((be16(b, i - 4), be16(b, i - 2)))
        } else {
            None
        };
        if has_o {
            let off = be16(b, i);
            i += 2;
            if b.len() - i < off as usize {
                return rej(Rej::DataOffset(off), b.len());
            }
            i += off as usize;
        }
        let end = match length {
            Some(l) => {
                if (l as usize) < i {
                    return rej(Rej::DataLengthBelowHeader(l), i);
                }
                if l as usize > b.len() {
                    return rej(Rej::DataLengthBeyondInput(l), b.len());
                }
                l as usize
            }
            None => b.len(),
        };
        let msg = SMessage::Data {
            prio: flags & F_P != 0,
            length,
            tid,
            sid,
            ns_nr,
            offset: None,
            data: b[i..end].to_vec(),
        };
        if end == i {
            if length.is_some() && b.len() > end {
                // a declared Length that leaves an empty payload while more octets follow:
                // RFC 2661 does not forbid an empty PPP payload and the crate's intent is
                // "reject empty"; either outcome is accepted (DESIGN.md §6.1)
                return Decoded {
                    verdict: Verdict::Unspecified(msg),
                    consumed: end,
                    relevant_end: end,
                };
            }
            return rej(Rej::DataEmpty, end);
        }
        Decoded {
            verdict: Verdict::Accept(msg),
            consumed: end,
            relevant_end: end,
        }
    }
}

#[derive(Clone, Debug, PartialEq, Eq)]
pub enum EncErr {
    AvpTooLong(usize),
    MessageTooLong(usize),
}

pub fn encode_payload(v: &SVal, out: &mut Vec<u8>) {
    match v {
        SVal::MessageType(c) | SVal::U16(c) | SVal::PAType(c) => out.extend_from_slice(&c.to_be_bytes()),
        SVal::ResultCode { code, error } => {
            out.extend_from_slice(&code.to_be_bytes());
            if let Some((et, msg)) = error {
                out.extend_from_slice(&et.to_be_bytes());
                if let Some(m) = msg {
                    out.extend_from_slice(m.as_bytes());
                }
            }
        }
        SVal::ProtoVer(a, b) => out.extend_from_slice(&[*a, *b]),
        SVal::Bits(w) | SVal::U32(w) => out.extend_from_slice(&w.to_be_bytes()),
        SVal::U64(w) => out.extend_from_slice(&w.to_be_bytes()),
        SVal::Bytes(b) => out.extend_from_slice(b),
        SVal::Str(s) => out.extend_from_slice(s.as_bytes()),
        SVal::Fix4(a) => out.extend_from_slice(a),
        SVal::Fix16(a) => out.extend_from_slice(a),
        SVal::Q931 { code, msg, adv } => {
            out.extend_from_slice(&code.to_be_bytes());
            out.push(*msg);
            if let Some(a) = adv {
                out.extend_from_slice(a.as_bytes());
            }
        }
        SVal::PAId(x) => out.extend_from_slice(&[0, *x]),
        SVal::CallErrors(a) => {
            out.extend_from_slice(&[0, 0]);
            for x in a {
                out.extend_from_slice(&x.to_be_bytes());
            }
        }
        SVal::Accm(s, r) => {
            out.extend_from_slice(&[0, 0]);
            out.extend_from_slice(s);
            out.extend_from_slice(r);
        }
        SVal::Empty => (),
    }
}

pub fn payload_of(a: &SAvp) -> Vec<u8> {
    let mut p = Vec::new();
    match a {
        SAvp::Hidden { value, .. } => p.extend_from_slice(value),
        SAvp::Plain { val, .. } => encode_payload(val, &mut p),
    }
    p
}

/// M bit set, H only on hidden, reserved bits zero, vendor id 0, 10-bit length.
pub fn encode_avp(a: &SAvp, out: &mut Vec<u8>) -> Result<(), EncErr> {
    let p = payload_of(a);
    let len = 6 + p.len();
    if len > 1023 {
        return Err(EncErr::AvpTooLong(len));
    }
    let h = if a.is_hidden() { 0x02 } else { 0 };
    out.push((((len >> 8) as u8) << 6) | 0x01 | h);
    out.push(len as u8);
    out.extend_from_slice(&[0, 0]);
    out.extend_from_slice(&a.attr().to_be_bytes());
    out.extend_from_slice(&p);
    Ok(())
}

pub fn encode(m: &SMessage, out: &mut Vec<u8>) -> Result<(), EncErr> {
    let start = out.len();
    match m {
        SMessage::Control {
            tid, sid, ns, nr, avps, ..
        } => {
            out.extend_from_slice(&F_CANON_CONTROL.to_be_bytes());
            out.extend_from_slice(&[0, 0]);
            for x in [tid, sid, ns, nr] {
                out.extend_from_slice(&x.to_be_bytes());
            }
            for a in avps {
                if let Err(e) = encode_avp(a, out) {
                    out.truncate(start);
                    return Err(e);
                }
            }
            let len = out.len() - start;
            if len > 65535 {
                out.truncate(start);
                return Err(EncErr::MessageTooLong(len));
            }
            out[start + 2] = (len >> 8) as u8;
            out[start + 3] = len as u8;
        }
        SMessage::Data {
            prio,
            length,
            tid,
            sid,
            ns_nr,
            offset,
            data,
        } => {
            let mut f: u16 = 2 << 4;
            if length.is_some() {
                f |= F_L;
            }
            if ns_nr.is_some() {
                f |= F_S;
            }
            if offset.is_some() {
                f |= F_O;
            }
            if *prio {
                f |= F_P;
            }
            out.extend_from_slice(&f.to_be_bytes());
            if let Some(l) = length {
                out.extend_from_slice(&l.to_be_bytes());
            }
            out.extend_from_slice(&tid.to_be_bytes());
            out.extend_from_slice(&sid.to_be_bytes());
            if let Some((ns, nr)) = ns_nr {
                out.extend_from_slice(&ns.to_be_bytes());
                out.extend_from_slice(&nr.to_be_bytes());
            }
            if let Some(o) = offset {
                out.extend_from_slice(&o.to_be_bytes());
            }
            out.extend_from_slice(data);
        }
    }
    Ok(())
}

// ---------------------------------------------------------------------------------------------
// RFC 2661 §4.3 hiding

#[derive(Clone, Debug, PartialEq, Eq)]
pub enum RevealRej {
    Empty,
    Misaligned,
    OriginalLength(u16),
    Payload(AvpRej),
}

fn xor16(dst: &mut [u8], key: &[u8; 16]) {
    for j in 0..16 {
        dst[j] ^= key[j];
    }
}

fn first_key(attr: u16, secret: &[u8], rv: &[u8]) -> [u8; 16] {
    let mut buf = Vec::new();
    buf.extend_from_slice(&attr.to_be_bytes());
    buf.extend_from_slice(secret);
    buf.extend_from_slice(rv);
    md5::md5(&buf)
}

fn next_key(secret: &[u8], prev_cipher: &[u8]) -> [u8; 16] {
    let mut buf = Vec::new();
    buf.extend_from_slice(secret);
    buf.extend_from_slice(prev_cipher);
    md5::md5(&buf)
}

/// plaintext subformat: original length (AVP length incl. 6-octet header), value, padding
pub fn hide_plaintext(payload: &[u8], lp: &[u8], ap: &[u8; 16]) -> Result<Vec<u8>, EncErr> {
    let orig = 6 + payload.len();
    if orig > 1023 {
        return Err(EncErr::AvpTooLong(orig));
    }
    let mut p = Vec::new();
    p.extend_from_slice(&(orig as u16).to_be_bytes());
    p.extend_from_slice(payload);
    p.extend_from_slice(lp);
    let pad = (16 - p.len() % 16) % 16;
    p.extend_from_slice(&ap[..pad]);
    Ok(p)
}

pub fn encrypt(attr: u16, plaintext: &[u8], secret: &[u8], rv: &[u8]) -> Vec<u8> {
    assert!(plaintext.len() % 16 == 0 && !plaintext.is_empty());
    let mut c = plaintext.to_vec();
    let n = c.len() / 16;
    let k = first_key(attr, secret, rv);
    xor16(&mut c[0..16], &k);
    for i in 1..n {
        let k = next_key(secret, &c[(i - 1) * 16..i * 16]);
        xor16(&mut c[i * 16..(i + 1) * 16], &k);
    }
    c
}

pub fn decrypt(attr: u16, cipher: &[u8], secret: &[u8], rv: &[u8]) -> Vec<u8> {
    assert!(cipher.len() % 16 == 0 && !cipher.is_empty());
    let mut p = cipher.to_vec();
    let n = p.len() / 16;
    for i in (1..n).rev() {
        let k = next_key(secret, &cipher[(i - 1) * 16..i * 16]);
        xor16(&mut p[i * 16..(i + 1) * 16], &k);
    }
    let k = first_key(attr, secret, rv);
    xor16(&mut p[0..16], &k);
    p
}

pub fn hide(a: &SAvp, secret: &[u8], rv: &[u8; 4], lp: &[u8], ap: &[u8; 16]) -> Result<SAvp, EncErr> {
    match a {
        SAvp::Hidden { .. } => Ok(a.clone()),
        SAvp::Plain { attr, .. } => {
            let p = hide_plaintext(&payload_of(a), lp, ap)?;
            Ok(SAvp::Hidden {
                attr: *attr,
                value: encrypt(*attr, &p, secret, rv),
            })
        }
    }
}

pub fn reveal(a: &SAvp, secret: &[u8], rv: &[u8; 4]) -> Result<SAvp, RevealRej> {
    match a {
        SAvp::Plain { .. } => Ok(a.clone()),
        SAvp::Hidden { attr, value } => {
            if value.is_empty() {
                return Err(RevealRej::Empty);
            }
            if value.len() % 16 != 0 {
                return Err(RevealRej::Misaligned);
            }
            let p = decrypt(*attr, value, secret, rv);
            let lo = be16(&p, 0);
            if !(6..=1023).contains(&lo) || (lo as usize - 6) > p.len() - 2 {
                return Err(RevealRej::OriginalLength(lo));
            }
            let payload = &p[2..2 + (lo as usize - 6)];
            decode_payload(*attr, payload)
                .map(|val| SAvp::Plain { attr: *attr, val })
                .map_err(RevealRej::Payload)
        }
    }
}

// ---------------------------------------------------------------------------------------------
// JSON forms (replay files, evidence samples)

pub fn hex(b: &[u8]) -> String {
    let mut s = String::with_capacity(b.len() * 2);
    for x in b {
        s.push_str(&format!("{x:02x}"));
    }
    s
}

pub fn unhex(s: &str) -> Option<Vec<u8>> {
    if s.len() % 2 != 0 {
        return None;
    }
    (0..s.len() / 2)
        .map(|i| u8::from_str_radix(&s[2 * i..2 * i + 2], 16).ok())
        .collect()
}

fn opt_str(s: &Option<String>) -> Value {
    match s {
        // strings travel as hex of their UTF-8 octets so that control characters survive
        Some(x) => json!(hex(x.as_bytes())),
        None => Value::Null,
    }
}

fn str_from(v: &Value) -> Option<Option<String>> {
    match v {
        Value::Null => Some(None),
        Value::String(h) => Some(Some(String::from_utf8(unhex(h)?).ok()?)),
        _ => None,
    }
}

impl SVal {
    pub fn to_json(&self) -> Value {
        match self {
            SVal::MessageType(c) => json!({"k":"MessageType","c":c}),
            SVal::ResultCode { code, error } => match error {
                None => json!({"k":"ResultCode","code":code}),
                Some((et, m)) => json!({"k":"ResultCode","code":code,"et":et,"msg":opt_str(m)}),
            },
            SVal::ProtoVer(a, b) => json!({"k":"ProtoVer","v":a,"r":b}),
            SVal::Bits(w) => json!({"k":"Bits","w":w}),
            SVal::U16(w) => json!({"k":"U16","w":w}),
            SVal::U32(w) => json!({"k":"U32","w":w}),
            SVal::U64(w) => json!({"k":"U64","w":w}),
            SVal::Bytes(b) => json!({"k":"Bytes","b":hex(b)}),
            SVal::Str(s) => json!({"k":"Str","b":hex(s.as_bytes())}),
            SVal::Fix4(a) => json!({"k":"Fix4","b":hex(a)}),
            SVal::Fix16(a) => json!({"k":"Fix16","b":hex(a)}),
            SVal::Q931 { code, msg, adv } => json!({"k":"Q931","code":code,"m":msg,"adv":opt_str(adv)}),
            SVal::PAType(c) => json!({"k":"PAType","c":c}),
            SVal::PAId(c) => json!({"k":"PAId","c":c}),
            SVal::CallErrors(a) => json!({"k":"CallErrors","a":a.to_vec()}),
            SVal::Accm(s, r) => json!({"k":"Accm","s":hex(s),"r":hex(r)}),
            SVal::Empty => json!({"k":"Empty"}),
        }
    }
    pub fn from_json(v: &Value) -> Option<SVal> {
        let k = v.get("k")?.as_str()?;
        let u = |n: &str| v.get(n).and_then(|x| x.as_u64());
        let hx = |n: &str| v.get(n).and_then(|x| x.as_str()).and_then(unhex);
        Some(match k {
            "MessageType" => SVal::MessageType(u("c")? as u16),
            "ResultCode" => SVal::ResultCode {
                code: u("code")? as u16,
                error: match u("et") {
                    Some(et) => Some((et as u16, str_from(v.get("msg").unwrap_or(&Value::Null))?)),
                    None => None,
                },
            },
            "ProtoVer" => SVal::ProtoVer(u("v")? as u8, u("r")? as u8),
            "Bits" => SVal::Bits(u("w")? as u32),
            "U16" => SVal::U16(u("w")? as u16),
            "U32" => SVal::U32(u("w")? as u32),
            "U64" => SVal::U64(u("w")?),
            "Bytes" => SVal::Bytes(hx("b")?),
            "Str" => SVal::Str(String::from_utf8(hx("b")?).ok()?),
            "Fix4" => SVal::Fix4(hx("b")?.try_into().ok()?),
            "Fix16" => SVal::Fix16(hx("b")?.try_into().ok()?),
            "Q931" => SVal::Q931 {
                code: u("code")? as u16,
                msg: u("m")? as u8,
                adv: str_from(v.get("adv").unwrap_or(&Value::Null))?,
            },
            "PAType" => SVal::PAType(u("c")? as u16),
            "PAId" => SVal::PAId(u("c")? as u8),
            "CallErrors" => {
                let a: Vec<u32> = v.get("a")?.as_array()?.iter().map(|x| x.as_u64().unwrap_or(0) as u32).collect();
                SVal::CallErrors(a.try_into().ok()?)
            }
            "Accm" => SVal::Accm(hx("s")?.try_into().ok()?, hx("r")?.try_into().ok()?),
            "Empty" => SVal::Empty,
            _ => return None,
        })
    }
}

impl SAvp {
    pub fn to_json(&self) -> Value {
        match self {
            SAvp::Hidden { attr, value } => json!({"hidden":true,"attr":attr,"value":hex(value)}),
            SAvp::Plain { attr, val } => json!({"attr":attr,"val":val.to_json()}),
        }
    }
    pub fn from_json(v: &Value) -> Option<SAvp> {
        let attr = v.get("attr")?.as_u64()? as u16;
        if v.get("hidden").and_then(|x| x.as_bool()) == Some(true) {
            Some(SAvp::Hidden {
                attr,
                value: unhex(v.get("value")?.as_str()?)?,
            })
        } else {
            Some(SAvp::Plain {
                attr,
                val: SVal::from_json(v.get("val")?)?,
            })
        }
    }
}

impl SMessage {
    pub fn to_json(&self) -> Value {
        match self {
            SMessage::Control {
                length,
                tid,
                sid,
                ns,
                nr,
                avps,
            } => json!({"t":"control","length":length,"tid":tid,"sid":sid,"ns":ns,"nr":nr,
                "avps": avps.iter().map(|a| a.to_json()).collect::<Vec<_>>()}),
            SMessage::Data {
                prio,
                length,
                tid,
                sid,
                ns_nr,
                offset,
                data,
            } => json!({"t":"data","prio":prio,"length":length,"tid":tid,"sid":sid,
                "ns_nr": ns_nr.map(|(a,b)| vec![a,b]), "offset":offset,
                "data": if data.len() > 96 && *data == crate::gen::ramp(data.len()) { json!({"len":data.len(),"head":hex(&data[..32]),"fill": "ramp"}) } else if data.len() > 96 && data.iter().all(|b| *b == data[0]) { json!({"len":data.len(),"fill_octet":data[0]}) } else { json!(hex(data)) }}),
        }
    }
    pub fn from_json(v: &Value) -> Option<SMessage> {
        let u = |n: &str| v.get(n).and_then(|x| x.as_u64());
        match v.get("t")?.as_str()? {
            "control" => Some(SMessage::Control {
                length: u("length")? as u16,
                tid: u("tid")? as u16,
                sid: u("sid")? as u16,
                ns: u("ns")? as u16,
                nr: u("nr")? as u16,
                avps: v.get("avps")?.as_array()?.iter().map(SAvp::from_json).collect::<Option<Vec<_>>>()?,
            }),
            "data" => Some(SMessage::Data {
                prio: v.get("prio")?.as_bool()?,
                length: u("length").map(|x| x as u16),
                tid: u("tid")? as u16,
                sid: u("sid")? as u16,
                ns_nr: v.get("ns_nr").and_then(|x| x.as_array()).map(|a| (a[0].as_u64().unwrap() as u16, a[1].as_u64().unwrap() as u16)),
                offset: u("offset").map(|x| x as u16),
                data: match v.get("data")? {
                    Value::String(s) => unhex(s)?,
                    o => match o.get("fill_octet").and_then(|x| x.as_u64()) {
                        Some(b) => vec![b as u8; o.get("len")?.as_u64()? as usize],
                        None => crate::gen::ramp(o.get("len")?.as_u64()? as usize),
                    },
                },
            }),
            _ => None,
        }
    }
}

/// Internal consistency of the specification itself; a failure is a machinery error.
pub fn self_test() -> Result<(), String> {
    md5::self_test()?;
    // utf8 validator against std on a dense set of short strings
    let alphabet: [u8; 16] = [
        0x00, 0x41, 0x7f, 0x80, 0xbf, 0xc0, 0xc2, 0xdf, 0xe0, 0xa0, 0xed, 0x9f, 0xf0, 0x90, 0xf4, 0xf5,
    ];
    let mut buf = [0u8; 4];
    for n in 0..=4usize {
        let total = 16usize.pow(n as u32);
        for idx in 0..total {
            let mut x = idx;
            for b in buf.iter_mut().take(n) {
                *b = alphabet[x % 16];
                x /= 16;
            }
            let s = &buf[..n];
            if utf8_ok(s) != std::str::from_utf8(s).is_ok() {
                return Err(format!("spec utf8 validator disagrees with std on {}", hex(s)));
            }
        }
    }
    Ok(())
}
