//! RFC 1321 MD5, written from the RFC text. Shares nothing with the `md5` crate that rl2tp uses.

const S: [u32; 64] = [
    7, 12, 17, 22, 7, 12, 17, 22, 7, 12, 17, 22, 7, 12, 17, 22, 5, 9, 14, 20, 5, 9, 14, 20, 5, 9,
    14, 20, 5, 9, 14, 20, 4, 11, 16, 23, 4, 11, 16, 23, 4, 11, 16, 23, 4, 11, 16, 23, 6, 10, 15,
    21, 6, 10, 15, 21, 6, 10, 15, 21, 6, 10, 15, 21,
];

fn k_table() -> [u32; 64] {
    // T[i] = floor(2^32 * abs(sin(i+1))) — RFC 1321 §3.4. Spelled out as literals so that no
    // floating point rounding is involved.
    [
        0xd76aa478, 0xe8c7b756, 0x242070db, 0xc1bdceee, 0xf57c0faf, 0x4787c62a, 0xa8304613,
        0xfd469501, 0x698098d8, 0x8b44f7af, 0xffff5bb1, 0x895cd7be, 0x6b901122, 0xfd987193,
        0xa679438e, 0x49b40821, 0xf61e2562, 0xc040b340, 0x265e5a51, 0xe9b6c7aa, 0xd62f105d,
        0x02441453, 0xd8a1e681, 0xe7d3fbc8, 0x21e1cde6, 0xc33707d6, 0xf4d50d87, 0x455a14ed,
        0xa9e3e905, 0xfcefa3f8, 0x676f02d9, 0x8d2a4c8a, 0xfffa3942, 0x8771f681, 0x6d9d6122,
        0xfde5380c, 0xa4beea44, 0x4bdecfa9, 0xf6bb4b60, 0xbebfbc70, 0x289b7ec6, 0xeaa127fa,
        0xd4ef3085, 0x04881d05, 0xd9d4d039, 0xe6db99e5, 0x1fa27cf8, 0xc4ac5665, 0xf4292244,
        0x432aff97, 0xab9423a7, 0xfc93a039, 0x655b59c3, 0x8f0ccc92, 0xffeff47d, 0x85845dd1,
        0x6fa87e4f, 0xfe2ce6e0, 0xa3014314, 0x4e0811a1, 0xf7537e82, 0xbd3af235, 0x2ad7d2bb,
        0xeb86d391,
    ]
}

pub fn md5(msg: &[u8]) -> [u8; 16] {
    let k = k_table();
    let mut a0: u32 = 0x67452301;
    let mut b0: u32 = 0xefcdab89;
    let mut c0: u32 = 0x98badcfe;
    let mut d0: u32 = 0x10325476;

    let mut m = msg.to_vec();
    let bitlen = (msg.len() as u64).wrapping_mul(8);
    m.push(0x80);
    while m.len() % 64 != 56 {
        m.push(0);
    }
    m.extend_from_slice(&bitlen.to_le_bytes());

    for chunk in m.chunks(64) {
        let mut w = [0u32; 16];
        for i in 0..16 {
            w[i] = u32::from_le_bytes([
                chunk[4 * i],
                chunk[4 * i + 1],
                chunk[4 * i + 2],
                chunk[4 * i + 3],
            ]);
        }
        let (mut a, mut b, mut c, mut d) = (a0, b0, c0, d0);
        for i in 0..64 {
            let (mut f, g);
            if i < 16 {
                f = (b & c) | (!b & d);
                g = i;
            } else if i < 32 {
                f = (d & b) | (!d & c);
                g = (5 * i + 1) % 16;
            } else if i < 48 {
                f = b ^ c ^ d;
                g = (3 * i + 5) % 16;
            } else {
                f = c ^ (b | !d);
                g = (7 * i) % 16;
            }
            f = f.wrapping_add(a).wrapping_add(k[i]).wrapping_add(w[g]);
            a = d;
            d = c;
            c = b;
            b = b.wrapping_add(f.rotate_left(S[i]));
        }
        a0 = a0.wrapping_add(a);
        b0 = b0.wrapping_add(b);
        c0 = c0.wrapping_add(c);
        d0 = d0.wrapping_add(d);
    }
    let mut out = [0u8; 16];
    out[0..4].copy_from_slice(&a0.to_le_bytes());
    out[4..8].copy_from_slice(&b0.to_le_bytes());
    out[8..12].copy_from_slice(&c0.to_le_bytes());
    out[12..16].copy_from_slice(&d0.to_le_bytes());
    out
}

fn hex(b: &[u8]) -> String {
    b.iter().map(|x| format!("{x:02x}")).collect()
}

/// RFC 1321 appendix A.5 test suite plus padding-boundary vectors (55/56/57/63/64/65/119/120
/// octets of 'a'), digests fixed in the source (computed once with coreutils md5sum).
pub fn self_test() -> Result<(), String> {
    let vectors: [(&[u8], &str); 7] = [
        (b"", "d41d8cd98f00b204e9800998ecf8427e"),
        (b"a", "0cc175b9c0f1b6a831c399e269772661"),
        (b"abc", "900150983cd24fb0d6963f7d28e17f72"),
        (b"message digest", "f96b697d7cb7938d525a2f31aaf161d0"),
        (b"abcdefghijklmnopqrstuvwxyz", "c3fcd3d76192e4007dfb496cca67e13b"),
        (
            b"ABCDEFGHIJKLMNOPQRSTUVWXYZabcdefghijklmnopqrstuvwxyz0123456789",
            "d174ab98d277d9f5a5611c2c9f419d9f",
        ),
        (
            b"12345678901234567890123456789012345678901234567890123456789012345678901234567890",
            "57edf4a22be3c955ac49da2e2107b67a",
        ),
    ];
    for (m, d) in vectors {
        let got = hex(&md5(m));
        if got != d {
            return Err(format!("md5 self test failed for {:?}: {got} != {d}", m));
        }
    }
    let boundary: [(usize, &str); 8] = [
        (55, "ef1772b6dff9a122358552954ad0df65"),
        (56, "3b0c8ac703f828b04c6c197006d17218"),
        (57, "652b906d60af96844ebd21b674f35e93"),
        (63, "b06521f39153d618550606be297466d5"),
        (64, "014842d480b571495a4a0363793f7367"),
        (65, "c743a45e0d2e6a95cb859adae0248435"),
        (119, "8a7bd0732ed6a28ce75f6dabc90e1613"),
        (120, "5f61c0ccad4cac44c75ff505e1f1e537"),
    ];
    for (n, d) in boundary {
        let got = hex(&md5(&vec![b'a'; n]));
        if got != d {
            return Err(format!("md5 self test failed for {n} x 'a': {got} != {d}"));
        }
    }
    Ok(())
}
