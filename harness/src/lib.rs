//! Verification harness library for nilssonk/rl2tp. See /verif/DESIGN.md.
#![allow(clippy::all)]
pub mod bridge;
pub mod ctx;
pub mod driver;
pub mod explore;
pub mod gen;
pub mod monitor;
pub mod props;
pub mod run;
pub mod selfcheck;
pub mod spec;
pub mod vgen;
