//! `vh` — verification harness for nilssonk/rl2tp (model checking family). See /verif/DESIGN.md.
//!
//! vh run <Cnn> <quick|thorough>      driver: spawn workers, merge, evidence, verdict
//! vh worker <Cnn> <tier> <shard> <nshards> <outprefix> [--start-after N] [--only N]
//! vh replay <file>                   run one stored case with no explorer
//! vh list                            registered properties

use vh::ctx::{self, Ctx, Tier};
use vh::{driver, props};

fn tier_of(s: &str) -> Tier {
    match s {
        "thorough" => Tier::Thorough,
        _ => Tier::Quick,
    }
}

fn main() {
    let args: Vec<String> = std::env::args().collect();
    let cmd = args.get(1).map(|s| s.as_str()).unwrap_or("");
    let code = match cmd {
        "run" => driver::run(&args[2], tier_of(args.get(3).map(|s| s.as_str()).unwrap_or("quick"))),
        "worker" => worker(&args[2..]),
        "replay" => replay(&args[2]),
        "c19call" => props::c19::call_main(&args[2]),
        "c19digest" => props::c19::digest_main(args.get(2).map(|s| s.as_str()).unwrap_or("fwd")),
        "c19loom" => props::c19::loom_main(&args[2], args.get(3).map(|s| s.as_str()).unwrap_or("2")),
        "list" => {
            for p in props::all() {
                println!("{}", p.id);
            }
            0
        }
        _ => {
            eprintln!("usage: vh run|worker|replay|list ...");
            2
        }
    };
    std::process::exit(code);
}

fn worker(a: &[String]) -> i32 {
    let prop = &a[0];
    let tier = tier_of(&a[1]);
    let shard: u64 = a[2].parse().unwrap();
    let nshards: u64 = a[3].parse().unwrap();
    let pre = std::path::PathBuf::from(&a[4]);
    let mut start_after = 0u64;
    let mut only: Option<u64> = None;
    let mut stop_after: Option<u64> = None;
    let mut i = 5;
    while i < a.len() {
        match a[i].as_str() {
            "--start-after" => {
                start_after = a[i + 1].parse().unwrap();
                i += 2;
            }
            "--only" => {
                only = Some(a[i + 1].parse().unwrap());
                i += 2;
            }
            "--stop-after" => {
                stop_after = Some(a[i + 1].parse().unwrap());
                i += 2;
            }
            _ => i += 1,
        }
    }
    let def = match props::find(prop) {
        Some(d) => d,
        None => return 2,
    };
    ctx::install_panic_hook();
    ctx::install_crash_handler(pre.with_extension("crash").to_str().unwrap());
    ctx::limit_address_space((def.mem_gb)(tier) << 30);
    ctx::start_watchdog((def.watchdog_s)(tier));
    let mut c = Ctx::new(prop, tier, shard, nshards);
    c.start_after = start_after;
    c.only_case = only;
    c.stop_after = stop_after;
    c.seed = std::env::var("VERIF_SEED").ok().and_then(|s| s.parse().ok()).unwrap_or(0);
    c.sample_every = 9973;
    if only.is_some() {
        c.inflight_file = Some(pre.with_extension("inflight").to_string_lossy().to_string());
    }
    if let Some(s) = (def.deadline_s)(tier) {
        c.deadline = Some(std::time::Instant::now() + std::time::Duration::from_secs(s));
    }
    (def.run)(&mut c);
    // hashes of distinct non-trivial cases
    let mut hb: Vec<u8> = Vec::with_capacity(c.nontrivial.len() * 8);
    for h in &c.nontrivial {
        hb.extend_from_slice(&h.to_le_bytes());
    }
    let _ = std::fs::write(pre.with_extension("hashes"), hb);
    let _ = std::fs::write(pre.with_extension("json"), serde_json::to_string(&c.to_json()).unwrap());
    0
}

fn replay(file: &str) -> i32 {
    let s = match std::fs::read(file).map(|b| String::from_utf8_lossy(&b).into_owned()) {
        Ok(s) => s,
        Err(e) => {
            eprintln!("machinery: cannot read {file}: {e}");
            return 2;
        }
    };
    let v: serde_json::Value = match serde_json::from_str(&s) {
        Ok(v) => v,
        Err(e) => {
            eprintln!("machinery: bad replay file: {e}");
            return 2;
        }
    };
    let prop = v["property"].as_str().unwrap_or("");
    let def = match props::find(prop) {
        Some(d) => d,
        None => {
            eprintln!("machinery: unknown property in replay file");
            return 2;
        }
    };
    ctx::install_panic_hook();
    // a replayed case that does not terminate ends the process with exit 135 (as in a worker)
    ctx::install_crash_handler("/dev/null");
    ctx::start_watchdog(20);
    let mut c = Ctx::new(prop, tier_of(v["tier"].as_str().unwrap_or("quick")), 0, 1);
    println!("replaying {} case (profile {}): {}", prop, ctx::profile_name(), v["signature"].as_str().unwrap_or(""));
    (def.replay)(&mut c, &v["case"]);
    if c.violations.is_empty() {
        if let Some(cx) = v.get("context").filter(|x| x.is_object()) {
            // the case alone shows nothing: re-run the sweep of its shard up to and including it
            // (a result that depends on the calls made before it)
            let shard = cx["shard"].as_u64().unwrap_or(0);
            let nshards = cx["nshards"].as_u64().unwrap_or(1).max(1);
            let case_no = cx["case_no"].as_u64().unwrap_or(0);
            println!("  not reproduced in isolation; re-running shard {shard}/{nshards} of the sweep up to case {case_no}");
            let mut c2 = Ctx::new(prop, tier_of(v["tier"].as_str().unwrap_or("quick")), shard, nshards);
            c2.stop_after = Some(case_no);
            (def.run)(&mut c2);
            let sig = v["signature"].as_str().unwrap_or("");
            if let Some(viol) = c2.violations.get(sig) {
                println!("VIOLATION property={prop} replay={file}");
                println!("  signature: {sig}");
                println!("  detail (reproduced only after the earlier cases of the sweep: the result depends on call history): {}", viol.detail);
                return 1;
            }
        }
    }
    if c.violations.is_empty() {
        println!("no violation observed on this tree");
        0
    } else {
        for (sig, viol) in &c.violations {
            println!("VIOLATION property={prop} replay={file}");
            println!("  signature: {sig}");
            println!("  detail: {}", viol.detail);
        }
        1
    }
}
