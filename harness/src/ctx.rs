//! Per-worker exploration context: case numbering, sharding, counters, violation grouping,
//! crash / hang attribution.

use serde_json::{json, Value};
use std::cell::RefCell;
use std::collections::{BTreeMap, HashSet};
use std::io::Write;
use std::panic::{catch_unwind, AssertUnwindSafe};
use std::sync::atomic::{AtomicI32, AtomicU64, Ordering};

#[derive(Clone, Copy, Debug, PartialEq, Eq)]
pub enum Tier {
    Quick,
    Thorough,
}

impl Tier {
    pub fn name(&self) -> &'static str {
        match self {
            Tier::Quick => "quick",
            Tier::Thorough => "thorough",
        }
    }
    pub fn thorough(&self) -> bool {
        *self == Tier::Thorough
    }
}

pub fn profile_name() -> &'static str {
    if cfg!(debug_assertions) {
        "chk"
    } else {
        "rel"
    }
}

// ---- crash / hang attribution ----------------------------------------------------------------

pub static INFLIGHT: AtomicU64 = AtomicU64::new(0);
static CRASH_FD: AtomicI32 = AtomicI32::new(-1);

extern "C" fn on_fatal_signal(sig: libc::c_int) {
    // async-signal-safe: format "CRASH <sig> <case>\n" by hand and write(2) it
    let fd = CRASH_FD.load(Ordering::Relaxed);
    let mut buf = [0u8; 64];
    let mut n = 0;
    for b in b"CRASH " {
        buf[n] = *b;
        n += 1;
    }
    n += fmt_u64(sig as u64, &mut buf[n..]);
    buf[n] = b' ';
    n += 1;
    n += fmt_u64(INFLIGHT.load(Ordering::Relaxed), &mut buf[n..]);
    buf[n] = b'\n';
    n += 1;
    unsafe {
        if fd >= 0 {
            libc::write(fd, buf.as_ptr() as *const libc::c_void, n);
        }
        libc::_exit(134);
    }
}

fn fmt_u64(mut v: u64, out: &mut [u8]) -> usize {
    let mut tmp = [0u8; 20];
    let mut i = 0;
    if v == 0 {
        tmp[0] = b'0';
        i = 1;
    }
    while v > 0 {
        tmp[i] = b'0' + (v % 10) as u8;
        v /= 10;
        i += 1;
    }
    for k in 0..i {
        out[k] = tmp[i - 1 - k];
    }
    i
}

pub fn install_crash_handler(crash_file: &str) {
    let c = std::ffi::CString::new(crash_file).unwrap();
    let fd = unsafe { libc::open(c.as_ptr(), libc::O_WRONLY | libc::O_CREAT | libc::O_TRUNC, 0o644) };
    CRASH_FD.store(fd, Ordering::Relaxed);
    unsafe {
        // the handler runs on its own stack: a stack overflow in the code under test (unbounded
        // recursion) must still be recorded with its case number
        const ALT: usize = 1 << 16;
        let stack = libc::mmap(std::ptr::null_mut(), ALT, libc::PROT_READ | libc::PROT_WRITE, libc::MAP_PRIVATE | libc::MAP_ANONYMOUS, -1, 0);
        if stack != libc::MAP_FAILED {
            let ss = libc::stack_t {
                ss_sp: stack,
                ss_flags: 0,
                ss_size: ALT,
            };
            libc::sigaltstack(&ss, std::ptr::null_mut());
        }
        for sig in [libc::SIGABRT, libc::SIGSEGV, libc::SIGBUS, libc::SIGILL, libc::SIGFPE] {
            let mut sa: libc::sigaction = std::mem::zeroed();
            sa.sa_sigaction = on_fatal_signal as *const () as usize;
            sa.sa_flags = libc::SA_ONSTACK;
            libc::sigemptyset(&mut sa.sa_mask);
            libc::sigaction(sig, &sa, std::ptr::null_mut());
        }
    }
}

pub fn limit_address_space(bytes: u64) {
    unsafe {
        let lim = libc::rlimit {
            rlim_cur: bytes,
            rlim_max: bytes,
        };
        libc::setrlimit(libc::RLIMIT_AS, &lim);
    }
}

/// Watchdog: if the in-flight case number does not change for `secs` seconds while a case is
/// marked as running, record `HANG <case>` and exit.
pub static RUNNING: AtomicU64 = AtomicU64::new(0);
pub fn start_watchdog(secs: u64) {
    std::thread::spawn(move || {
        let mut last = (0u64, 0u64);
        let mut since = std::time::Instant::now();
        loop {
            std::thread::sleep(std::time::Duration::from_millis(250));
            let cur = (INFLIGHT.load(Ordering::Relaxed), RUNNING.load(Ordering::Relaxed));
            if cur != last {
                last = cur;
                since = std::time::Instant::now();
            } else if cur.1 != 0 && since.elapsed().as_secs() >= secs {
                let fd = CRASH_FD.load(Ordering::Relaxed);
                let msg = format!("HANG 0 {}\n", cur.0);
                unsafe {
                    if fd >= 0 {
                        libc::write(fd, msg.as_ptr() as *const libc::c_void, msg.len());
                    }
                    libc::_exit(135);
                }
            }
        }
    });
}

// ---- silent panic hook that remembers where the panic happened ----------------------------------

thread_local! {
    pub static LAST_PANIC: RefCell<Option<(String, String)>> = const { RefCell::new(None) };
}

pub fn install_panic_hook() {
    std::panic::set_hook(Box::new(|info| {
        let loc = info
            .location()
            .map(|l| crate::monitor::site_of(l))
            .unwrap_or_else(|| "?".into());
        let msg = if let Some(s) = info.payload().downcast_ref::<&str>() {
            s.to_string()
        } else if let Some(s) = info.payload().downcast_ref::<String>() {
            s.clone()
        } else {
            "?".into()
        };
        if std::env::var_os("VH_TRACE_PANICS").is_some() {
            eprintln!("panic at {loc}: {msg}\n{}", std::backtrace::Backtrace::force_capture());
        }
        if msg.contains("unsafe precondition") {
            // the process is about to abort: leave the reason where the driver can classify it
            eprintln!("non-unwinding panic at {loc}: {msg}");
        }
        LAST_PANIC.with(|p| *p.borrow_mut() = Some((loc, msg)));
    }));
}

pub fn take_last_panic() -> (String, String) {
    LAST_PANIC
        .with(|p| p.borrow_mut().take())
        .unwrap_or_else(|| ("?".into(), "?".into()))
}

/// Coarse class of a panic message so that signatures do not depend on the numbers in it.
pub fn panic_class(msg: &str) -> &'static str {
    if msg.contains("subtract with overflow") {
        "subtract-overflow"
    } else if msg.contains("add with overflow") {
        "add-overflow"
    } else if msg.contains("multiply with overflow") {
        "multiply-overflow"
    } else if msg.contains("out of range for slice") || msg.contains("range end index") || msg.contains("range start index") || msg.contains("slice index") {
        "slice-range"
    } else if msg.contains("index out of bounds") {
        "index-out-of-bounds"
    } else if msg.contains("assertion") {
        "assertion"
    } else if msg.contains("unsafe precondition") {
        "unsafe-precondition"
    } else if msg.contains("unwrap") {
        "unwrap"
    } else if msg.contains("capacity overflow") || msg.contains("alloc") {
        "allocation"
    } else {
        "other"
    }
}

/// Run `f`, turning an unwinding panic into `Err((location, message))`.
pub fn guarded<R>(f: impl FnOnce() -> R) -> Result<R, (String, String)> {
    match catch_unwind(AssertUnwindSafe(f)) {
        Ok(r) => Ok(r),
        Err(_) => Err(take_last_panic()),
    }
}

// ---- context -----------------------------------------------------------------------------------

#[derive(Clone, Debug)]
pub struct Viol {
    pub count: u64,
    pub case: Value,
    pub detail: String,
    pub size: usize,
    /// ordinal (within this worker's enumeration) of the case kept as the example
    pub case_no: u64,
}

pub struct Ctx {
    pub prop: String,
    pub tier: Tier,
    pub shard: u64,
    pub nshards: u64,
    pub unit: u64,
    pub case_no: u64,
    pub only_case: Option<u64>,
    pub start_after: u64,
    /// execute cases 1..=stop_after and skip everything later (context replay of a violation
    /// that only shows after earlier cases of the sweep)
    pub stop_after: Option<u64>,
    pub states: u64,
    pub transitions: u64,
    pub executions: u64,
    pub nontrivial: HashSet<u64>,
    pub nontrivial_mod: u64,
    /// distinct non-trivial cases counted directly by an engine that deduplicates itself
    /// (stateright's unique states, loom's schedules)
    pub nontrivial_direct: u64,
    pub hist: BTreeMap<String, u64>,
    pub guards: BTreeMap<String, u64>,
    pub violations: BTreeMap<String, Viol>,
    pub samples: Vec<Value>,
    pub sample_every: u64,
    pub extra: BTreeMap<String, Value>,
    pub inflight_file: Option<String>,
    pub seed: u64,
    pub capped: Option<String>,
    pub deadline: Option<std::time::Instant>,
}

impl Ctx {
    pub fn new(prop: &str, tier: Tier, shard: u64, nshards: u64) -> Self {
        Ctx {
            prop: prop.to_string(),
            tier,
            shard,
            nshards,
            unit: 0,
            case_no: 0,
            only_case: None,
            start_after: 0,
            stop_after: None,
            states: 0,
            transitions: 0,
            executions: 0,
            nontrivial: HashSet::new(),
            nontrivial_mod: 1,
            nontrivial_direct: 0,
            hist: BTreeMap::new(),
            guards: BTreeMap::new(),
            violations: BTreeMap::new(),
            samples: Vec::new(),
            sample_every: 1,
            extra: BTreeMap::new(),
            inflight_file: None,
            seed: 0,
            capped: None,
            deadline: None,
        }
    }

    /// Claim the next unit of the statically partitioned root of the choice tree.
    #[inline]
    pub fn mine(&mut self) -> bool {
        let u = self.unit;
        self.unit += 1;
        u % self.nshards == self.shard
    }

    /// Claim by key (used inside re-executed scenarios, where a counter would diverge between
    /// workers that skip different subtrees).
    #[inline]
    pub fn mine_key(&self, key: u64) -> bool {
        key % self.nshards == self.shard
    }

    #[inline]
    pub fn tally(&mut self, class: &str) {
        match self.hist.get_mut(class) {
            Some(c) => *c += 1,
            None => {
                self.hist.insert(class.to_string(), 1);
            }
        }
    }

    #[inline]
    pub fn guard(&mut self, name: &str) {
        match self.guards.get_mut(name) {
            Some(c) => *c += 1,
            None => {
                self.guards.insert(name.to_string(), 1);
            }
        }
    }

    #[inline]
    pub fn note_nontrivial(&mut self, hash: u64) {
        if hash % self.nontrivial_mod == 0 {
            self.nontrivial.insert(hash);
        }
    }

    pub fn violation(&mut self, signature: String, detail: String, size: usize, case: impl FnOnce() -> Value) {
        let no = self.case_no;
        match self.violations.get_mut(&signature) {
            Some(v) => {
                v.count += 1;
                if size < v.size {
                    v.size = size;
                    v.case = case();
                    v.detail = detail;
                    v.case_no = no;
                }
            }
            None => {
                self.violations.insert(
                    signature,
                    Viol {
                        count: 1,
                        case: case(),
                        detail,
                        size,
                        case_no: no,
                    },
                );
            }
        }
    }

    pub fn sample(&mut self, case: impl FnOnce() -> Value) {
        // a few real cases from this run: the first two of every worker plus a rotating pick
        let n = self.executions;
        if self.samples.len() < 2 || (self.samples.len() < 6 && n % self.sample_every == (self.seed % self.sample_every)) {
            self.samples.push(case());
        }
    }

    /// Run one case. `desc` materialises the case for reports; it is only called when needed.
    /// Returns false when the case was skipped (resume / single-case mode).
    pub fn case(&mut self, desc: &dyn Fn() -> Value, body: impl FnOnce(&mut Ctx)) -> bool {
        self.case_no += 1;
        let n = self.case_no;
        if n <= self.start_after {
            return false;
        }
        if let Some(stop) = self.stop_after {
            if n > stop {
                return false;
            }
        }
        if let Some(only) = self.only_case {
            if n != only {
                return false;
            }
            if let Some(f) = &self.inflight_file {
                let mut fh = std::fs::File::create(f).expect("inflight file");
                let _ = fh.write_all(serde_json::to_string(&desc()).unwrap().as_bytes());
                let _ = fh.sync_all();
            }
        }
        INFLIGHT.store(n, Ordering::Relaxed);
        RUNNING.store(1, Ordering::Relaxed);
        self.executions += 1;
        let r = catch_unwind(AssertUnwindSafe(|| body(self)));
        RUNNING.store(0, Ordering::Relaxed);
        if r.is_err() {
            let (loc, msg) = take_last_panic();
            let sig = format!("{} escaped-panic {} {}", self.prop, loc, panic_class(&msg));
            self.violation(sig, format!("panic at {loc}: {msg}"), usize::MAX / 2, || desc());
        }
        true
    }

    pub fn out_of_time(&mut self) -> bool {
        if let Some(d) = self.deadline {
            if std::time::Instant::now() > d {
                if self.capped.is_none() {
                    self.capped = Some("wall-clock cap reached".into());
                }
                return true;
            }
        }
        false
    }

    pub fn to_json(&self) -> Value {
        json!({
            "prop": self.prop,
            "profile": profile_name(),
            "shard": self.shard,
            "cases": self.case_no,
            "states": self.states,
            "transitions": self.transitions,
            "executions": self.executions,
            "hist": self.hist,
            "guards": self.guards,
            "violations": self.violations.iter().map(|(k,v)| json!({"sig":k,"count":v.count,"case":v.case,"detail":v.detail,"size":v.size as u64,"case_no":v.case_no,"shard":self.shard,"nshards":self.nshards})).collect::<Vec<_>>(),
            "samples": self.samples,
            "extra": self.extra,
            "capped": self.capped,
            "nontrivial_mod": self.nontrivial_mod,
            "nontrivial_direct": self.nontrivial_direct,
        })
    }
}

pub fn fnv(bytes: &[u8], seed: u64) -> u64 {
    let mut h: u64 = 0xcbf29ce484222325 ^ seed.wrapping_mul(0x9e3779b97f4a7c15);
    for b in bytes {
        h ^= *b as u64;
        h = h.wrapping_mul(0x100000001b3);
    }
    // final avalanche so that `% nontrivial_mod` is well distributed
    h ^= h >> 33;
    h = h.wrapping_mul(0xff51afd7ed558ccd);
    h ^= h >> 33;
    h
}
