//! Internal consistency of the reference specification (a failure is a machinery error).

use crate::spec::{self, SAvp, SMessage, Verdict};

pub fn spec_consistency() -> Result<(), String> {
    // decode(encode(v)) = v for a menu of values of every kind
    let avps = crate::vgen::menu_avps();
    for a in &avps {
        let mut b = Vec::new();
        spec::encode_avp(a, &mut b).map_err(|e| format!("spec encode failed for {a:?}: {e:?}"))?;
        let (items, used) = spec::decode_avps(&b);
        if items.len() != 1 || used != b.len() || items[0].res.as_ref().ok() != Some(a) {
            return Err(format!("spec decode(encode({a:?})) = {items:?}"));
        }
    }
    let mut all = vec![avps[0].clone()];
    all.extend(avps.iter().skip(1).cloned().filter(|a| matches!(a, SAvp::Plain { .. })).take(30));
    let m = SMessage::Control {
        length: 0,
        tid: 1,
        sid: 2,
        ns: 3,
        nr: 4,
        avps: all,
    };
    let mut b = Vec::new();
    spec::encode(&m, &mut b).map_err(|e| format!("{e:?}"))?;
    let d = spec::decode(&b, spec::OPT_STRICT);
    match (&d.verdict, &m) {
        (Verdict::Accept(SMessage::Control { length, avps: got, .. }), SMessage::Control { avps: want, .. }) => {
            if *length as usize != b.len() || got != want || d.consumed != b.len() {
                return Err("spec control round trip mismatch".into());
            }
        }
        _ => return Err(format!("spec rejects its own control encoding: {:?}", d.verdict)),
    }
    Ok(())
}
