//! Harness implementations of the crate's public `Reader` / `Writer` traits that check every
//! request against the contract, never perform an out-of-range access themselves, and record the
//! call site inside the crate (`#[track_caller]`).

use rl2tp::common::{Reader, Writer};
use std::cell::RefCell;
use std::collections::BTreeMap;
use std::panic::Location;

#[derive(Clone, Debug, PartialEq, Eq)]
pub struct ContractViolation {
    pub site: String,
    pub method: &'static str,
    pub remaining: usize,
    pub requested: usize,
}

#[derive(Clone, Debug, Default)]
pub struct SiteStat {
    pub calls: u64,
    pub min_remaining: usize,
    pub max_remaining: usize,
    /// minimum of (remaining - requested) over all calls; 0 = the site was exercised at its
    /// tight fit
    pub min_slack: i64,
}

#[derive(Debug, Default)]
pub struct Mon {
    pub violations: Vec<ContractViolation>,
    pub calls: u64,
    /// one past the highest absolute input offset ever handed out to the decoder
    pub max_handed: usize,
    pub sites: Option<BTreeMap<(String, &'static str), SiteStat>>,
    /// what `bytes(n)` does when `n > len()`: false = consume nothing, true = consume everything
    pub overrun_consumes_all: bool,
}

impl Mon {
    pub fn new(overrun_consumes_all: bool) -> Self {
        Mon {
            overrun_consumes_all,
            ..Default::default()
        }
    }
    pub fn with_sites(mut self) -> Self {
        self.sites = Some(BTreeMap::new());
        self
    }
    fn note(&mut self, loc: &'static Location<'static>, method: &'static str, remaining: usize, requested: usize, checked: bool) {
        self.calls += 1;
        if checked && requested > remaining {
            if self.violations.len() < 8 {
                self.violations.push(ContractViolation {
                    site: site_of(loc),
                    method,
                    remaining,
                    requested,
                });
            }
        }
        if let Some(s) = self.sites.as_mut() {
            let e = s.entry((site_of(loc), method)).or_insert(SiteStat {
                calls: 0,
                min_remaining: usize::MAX,
                max_remaining: 0,
                min_slack: i64::MAX,
            });
            e.calls += 1;
            e.min_remaining = e.min_remaining.min(remaining);
            e.max_remaining = e.max_remaining.max(remaining);
            e.min_slack = e.min_slack.min(remaining as i64 - requested as i64);
        }
    }
}

/// `src/...:line` relative to the crate root, whatever the absolute path of the checkout.
pub fn site_of(loc: &Location<'_>) -> String {
    let f = loc.file();
    let rel = match f.rfind("/src/") {
        Some(i) => &f[i + 1..],
        None => f,
    };
    format!("{}:{}", rel, loc.line())
}

macro_rules! checked_reader_common {
    () => {
        #[inline]
        fn rem(&self) -> usize {
            self.end - self.start
        }
        /// take up to n octets; reports whether the full amount was available
        #[inline]
        fn take(&mut self, n: usize) -> (usize, usize) {
            let avail = self.rem();
            let k = n.min(avail);
            let s = self.start;
            self.start += k;
            if k > 0 {
                let mut m = self.mon.borrow_mut();
                if self.start > m.max_handed {
                    m.max_handed = self.start;
                }
            }
            (s, k)
        }
        #[inline]
        fn read_n(&mut self, n: usize, loc: &'static Location<'static>, method: &'static str) -> u64 {
            let avail = self.rem();
            self.mon.borrow_mut().note(loc, method, avail, n, true);
            if avail < n {
                // out of contract: hand out nothing real, consume what is there
                self.start = self.end;
                return 0;
            }
            let (s, _) = self.take(n);
            let mut v = 0u64;
            for i in 0..n {
                v = (v << 8) | self.base[s + i] as u64;
            }
            v
        }
    };
}

/// Slice-backed monitored reader, `T = &[u8]`.
pub struct R2<'a> {
    base: &'a [u8],
    start: usize,
    end: usize,
    mon: &'a RefCell<Mon>,
}

impl<'a> R2<'a> {
    pub fn new(base: &'a [u8], mon: &'a RefCell<Mon>) -> Self {
        R2 {
            base,
            start: 0,
            end: base.len(),
            mon,
        }
    }
    pub fn position(&self) -> usize {
        self.start
    }
    checked_reader_common!();
}

impl<'a> Reader<&'a [u8]> for R2<'a> {
    #[inline]
    fn is_empty(&self) -> bool {
        self.rem() == 0
    }
    #[inline]
    fn len(&self) -> usize {
        self.rem()
    }
    #[track_caller]
    fn subreader(&mut self, length: usize) -> Self {
        let avail = self.rem();
        self.mon.borrow_mut().note(Location::caller(), "subreader", avail, length, true);
        let k = length.min(avail);
        let r = R2 {
            base: self.base,
            start: self.start,
            end: self.start + k,
            mon: self.mon,
        };
        self.start += k;
        r
    }
    #[track_caller]
    fn bytes(&mut self, length: usize) -> Option<&'a [u8]> {
        let avail = self.rem();
        self.mon.borrow_mut().note(Location::caller(), "bytes", avail, length, false);
        if length > avail {
            if self.mon.borrow().overrun_consumes_all {
                self.start = self.end;
            }
            return None;
        }
        let (s, k) = self.take(length);
        Some(&self.base[s..s + k])
    }
    #[track_caller]
    unsafe fn read_u8_unchecked(&mut self) -> u8 {
        self.read_n(1, Location::caller(), "read_u8") as u8
    }
    #[track_caller]
    unsafe fn read_u16_be_unchecked(&mut self) -> u16 {
        self.read_n(2, Location::caller(), "read_u16") as u16
    }
    #[track_caller]
    unsafe fn read_u32_be_unchecked(&mut self) -> u32 {
        self.read_n(4, Location::caller(), "read_u32") as u32
    }
    #[track_caller]
    unsafe fn read_u64_be_unchecked(&mut self) -> u64 {
        self.read_n(8, Location::caller(), "read_u64")
    }
    #[track_caller]
    fn skip_bytes(&mut self, length: usize) {
        let avail = self.rem();
        self.mon.borrow_mut().note(Location::caller(), "skip_bytes", avail, length, true);
        let k = length.min(avail);
        self.start += k;
    }
}

/// What the owning reader hands out: a buffer that is wiped when it is released, so that a
/// decoder which keeps a pointer into it after dropping it reads 0xdd octets instead of
/// plausible stale data.
#[derive(Clone, Debug, PartialEq, Eq)]
pub struct Lease(pub Vec<u8>);

impl core::borrow::Borrow<[u8]> for Lease {
    fn borrow(&self) -> &[u8] {
        &self.0
    }
}

impl Drop for Lease {
    fn drop(&mut self) {
        for b in self.0.iter_mut() {
            // volatile so that the wipe is not optimised away as a dead store
            unsafe { std::ptr::write_volatile(b, 0xdd) };
        }
    }
}

/// Owning monitored reader, `T = Lease` (an owned buffer wiped on release): `bytes` hands out
/// fresh buffers.
pub struct R3<'a> {
    base: &'a [u8],
    start: usize,
    end: usize,
    mon: &'a RefCell<Mon>,
}

impl<'a> R3<'a> {
    pub fn new(base: &'a [u8], mon: &'a RefCell<Mon>) -> Self {
        R3 {
            base,
            start: 0,
            end: base.len(),
            mon,
        }
    }
    pub fn position(&self) -> usize {
        self.start
    }
    checked_reader_common!();
}

impl<'a> Reader<Lease> for R3<'a> {
    #[inline]
    fn is_empty(&self) -> bool {
        self.rem() == 0
    }
    #[inline]
    fn len(&self) -> usize {
        self.rem()
    }
    #[track_caller]
    fn subreader(&mut self, length: usize) -> Self {
        let avail = self.rem();
        self.mon.borrow_mut().note(Location::caller(), "subreader", avail, length, true);
        let k = length.min(avail);
        let r = R3 {
            base: self.base,
            start: self.start,
            end: self.start + k,
            mon: self.mon,
        };
        self.start += k;
        r
    }
    #[track_caller]
    fn bytes(&mut self, length: usize) -> Option<Lease> {
        let avail = self.rem();
        self.mon.borrow_mut().note(Location::caller(), "bytes", avail, length, false);
        if length > avail {
            if self.mon.borrow().overrun_consumes_all {
                self.start = self.end;
            }
            return None;
        }
        let (s, k) = self.take(length);
        Some(Lease(self.base[s..s + k].to_vec()))
    }
    #[track_caller]
    unsafe fn read_u8_unchecked(&mut self) -> u8 {
        self.read_n(1, Location::caller(), "read_u8") as u8
    }
    #[track_caller]
    unsafe fn read_u16_be_unchecked(&mut self) -> u16 {
        self.read_n(2, Location::caller(), "read_u16") as u16
    }
    #[track_caller]
    unsafe fn read_u32_be_unchecked(&mut self) -> u32 {
        self.read_n(4, Location::caller(), "read_u32") as u32
    }
    #[track_caller]
    unsafe fn read_u64_be_unchecked(&mut self) -> u64 {
        self.read_n(8, Location::caller(), "read_u64")
    }
    #[track_caller]
    fn skip_bytes(&mut self, length: usize) {
        let avail = self.rem();
        self.mon.borrow_mut().note(Location::caller(), "skip_bytes", avail, length, true);
        let k = length.min(avail);
        self.start += k;
    }
}

/// Slice-backed monitored reader whose position lives behind an `Rc<Cell<_>>` (a conforming
/// reader need not be plain data: a bitwise copy of it shares the position with the original).
pub struct R4<'a> {
    base: &'a [u8],
    pos: std::rc::Rc<std::cell::Cell<usize>>,
    end: usize,
    mon: &'a RefCell<Mon>,
}

impl<'a> R4<'a> {
    pub fn new(base: &'a [u8], mon: &'a RefCell<Mon>) -> Self {
        R4 {
            base,
            pos: std::rc::Rc::new(std::cell::Cell::new(0)),
            end: base.len(),
            mon,
        }
    }
    #[inline]
    fn rem(&self) -> usize {
        self.end - self.pos.get()
    }
    #[inline]
    fn take(&mut self, n: usize) -> (usize, usize) {
        let k = n.min(self.rem());
        let s = self.pos.get();
        self.pos.set(s + k);
        (s, k)
    }
    #[inline]
    fn read_n(&mut self, n: usize, loc: &'static Location<'static>, method: &'static str) -> u64 {
        let avail = self.rem();
        self.mon.borrow_mut().note(loc, method, avail, n, true);
        if avail < n {
            self.pos.set(self.end);
            return 0;
        }
        let (s, _) = self.take(n);
        let mut v = 0u64;
        for i in 0..n {
            v = (v << 8) | self.base[s + i] as u64;
        }
        v
    }
}

impl<'a> Reader<&'a [u8]> for R4<'a> {
    #[inline]
    fn is_empty(&self) -> bool {
        self.rem() == 0
    }
    #[inline]
    fn len(&self) -> usize {
        self.rem()
    }
    #[track_caller]
    fn subreader(&mut self, length: usize) -> Self {
        let avail = self.rem();
        self.mon.borrow_mut().note(Location::caller(), "subreader", avail, length, true);
        let k = length.min(avail);
        let s = self.pos.get();
        self.pos.set(s + k);
        R4 {
            base: self.base,
            pos: std::rc::Rc::new(std::cell::Cell::new(s)),
            end: s + k,
            mon: self.mon,
        }
    }
    #[track_caller]
    fn bytes(&mut self, length: usize) -> Option<&'a [u8]> {
        let avail = self.rem();
        self.mon.borrow_mut().note(Location::caller(), "bytes", avail, length, false);
        if length > avail {
            return None;
        }
        let (s, k) = self.take(length);
        Some(&self.base[s..s + k])
    }
    #[track_caller]
    unsafe fn read_u8_unchecked(&mut self) -> u8 {
        self.read_n(1, Location::caller(), "read_u8") as u8
    }
    #[track_caller]
    unsafe fn read_u16_be_unchecked(&mut self) -> u16 {
        self.read_n(2, Location::caller(), "read_u16") as u16
    }
    #[track_caller]
    unsafe fn read_u32_be_unchecked(&mut self) -> u32 {
        self.read_n(4, Location::caller(), "read_u32") as u32
    }
    #[track_caller]
    unsafe fn read_u64_be_unchecked(&mut self) -> u64 {
        self.read_n(8, Location::caller(), "read_u64")
    }
    #[track_caller]
    fn skip_bytes(&mut self, length: usize) {
        let avail = self.rem();
        self.mon.borrow_mut().note(Location::caller(), "skip_bytes", avail, length, true);
        let k = length.min(avail);
        self.pos.set(self.pos.get() + k);
    }
}

// ---------------------------------------------------------------------------------------------

#[derive(Clone, Debug, PartialEq, Eq)]
pub struct Overwrite {
    pub site: String,
    pub offset: usize,
    pub len: usize,
    /// writer length when the overwrite was issued
    pub writer_len: usize,
}

/// `Writer` that records every positional overwrite. Behaves like a plain vector; an overwrite
/// outside the written data is recorded and not applied (no panic, so the encoder under test
/// keeps running and the report stays deterministic).
#[derive(Clone, Debug, Default)]
pub struct RecordingWriter {
    pub data: Vec<u8>,
    pub overwrites: Vec<Overwrite>,
    pub out_of_range: Vec<Overwrite>,
    /// pretend that this many octets were written before `data` (they are not stored): lets a
    /// history start at positions such as 2^16 or 2^32 without allocating them
    pub virtual_base: usize,
}

impl RecordingWriter {
    pub fn with_prefix(p: &[u8]) -> Self {
        RecordingWriter {
            data: p.to_vec(),
            ..Default::default()
        }
    }
    pub fn at_position(virtual_base: usize) -> Self {
        RecordingWriter {
            virtual_base,
            ..Default::default()
        }
    }
}

impl Writer for RecordingWriter {
    fn is_empty(&self) -> bool {
        self.virtual_base == 0 && self.data.is_empty()
    }
    fn len(&self) -> usize {
        self.virtual_base + self.data.len()
    }
    fn write_bytes(&mut self, bytes: &[u8]) {
        self.data.extend_from_slice(bytes);
    }
    #[track_caller]
    fn write_bytes_at(&mut self, bytes: &[u8], offset: usize) {
        let rec = Overwrite {
            site: site_of(Location::caller()),
            offset,
            len: bytes.len(),
            writer_len: self.virtual_base + self.data.len(),
        };
        let inside = offset >= self.virtual_base && offset.checked_add(bytes.len()).map_or(false, |e| e <= self.virtual_base + self.data.len());
        if !inside {
            self.out_of_range.push(rec);
            return;
        }
        let o = offset - self.virtual_base;
        self.data[o..o + bytes.len()].copy_from_slice(bytes);
        self.overwrites.push(rec);
    }
    fn write_u8(&mut self, value: u8) {
        self.data.push(value);
    }
    fn write_u16_be(&mut self, value: u16) {
        self.data.extend_from_slice(&value.to_be_bytes());
    }
    fn write_u32_be(&mut self, value: u32) {
        self.data.extend_from_slice(&value.to_be_bytes());
    }
    fn write_u64_be(&mut self, value: u64) {
        self.data.extend_from_slice(&value.to_be_bytes());
    }
}
