//! Driver: spawns worker subprocesses (both build profiles), merges their reports, attributes
//! crashes and hangs, reproduces violations, applies the known-findings file, writes evidence and
//! replay files, prints VIOLATION / KNOWN-FINDING lines and decides the exit code.
//!
//! exit 0 = property held on everything explored (or only listed known findings)
//! exit 1 = violation (with a `VIOLATION property=<id> replay=<path>` line)
//! exit 2 = machinery problem (never a verdict)

use crate::ctx::Tier;
use crate::props::{self, PropDef};
use serde_json::{json, Value};
use std::collections::{BTreeMap, HashSet};
use std::io::Read;
use std::path::{Path, PathBuf};
use std::process::{Command, Stdio};
use std::time::Instant;

pub const VERIF_ROOT: &str = "/verif";

fn bin_for(profile: &str) -> PathBuf {
    let dir = if profile == "chk" { "chk" } else { "release" };
    Path::new(VERIF_ROOT).join("harness/target").join(dir).join("vh")
}

#[derive(Default)]
struct Merged {
    states: u64,
    transitions: u64,
    executions: u64,
    cases: u64,
    hist: BTreeMap<String, u64>,
    guards: BTreeMap<String, u64>,
    violations: BTreeMap<String, (u64, Value, String, u64, String)>, // count, case, detail, size, profile
    contexts: BTreeMap<String, Value>, // signature -> {shard, nshards, case_no} of the kept example
    samples: Vec<Value>,
    extra: BTreeMap<String, Value>,
    capped: Vec<String>,
    per_profile: BTreeMap<String, (u64, u64, u64)>,
    nontrivial: HashSet<u64>,
    nontrivial_mod: u64,
    nontrivial_direct: u64,
    crashes: u64,
}

fn merge_worker(m: &mut Merged, v: &Value, hashes: &Path) {
    let g = |k: &str| v.get(k).and_then(|x| x.as_u64()).unwrap_or(0);
    m.states += g("states");
    m.transitions += g("transitions");
    m.executions += g("executions");
    m.cases += g("cases");
    m.nontrivial_mod = m.nontrivial_mod.max(g("nontrivial_mod"));
    if v.get("profile").and_then(|x| x.as_str()) == Some("rel") {
        // both profiles explore the same space: count engine-deduplicated cases once
        m.nontrivial_direct += g("nontrivial_direct");
    }
    let profile = v.get("profile").and_then(|x| x.as_str()).unwrap_or("?").to_string();
    let e = m.per_profile.entry(profile.clone()).or_insert((0, 0, 0));
    e.0 += g("executions");
    e.1 += g("states");
    e.2 += g("transitions");
    for (name, dst) in [("hist", &mut m.hist), ("guards", &mut m.guards)] {
        if let Some(o) = v.get(name).and_then(|x| x.as_object()) {
            for (k, c) in o {
                *dst.entry(k.clone()).or_insert(0) += c.as_u64().unwrap_or(0);
            }
        }
    }
    if let Some(a) = v.get("violations").and_then(|x| x.as_array()) {
        for x in a {
            let sig = x["sig"].as_str().unwrap_or("?").to_string();
            let count = x["count"].as_u64().unwrap_or(1);
            let size = x["size"].as_u64().unwrap_or(u64::MAX);
            let detail = x["detail"].as_str().unwrap_or("").to_string();
            let cx = json!({"shard": x["shard"], "nshards": x["nshards"], "case_no": x["case_no"]});
            match m.violations.get_mut(&sig) {
                Some(e) => {
                    e.0 += count;
                    if size < e.3 {
                        *e = (e.0, x["case"].clone(), detail, size, profile.clone());
                        m.contexts.insert(sig, cx);
                    }
                }
                None => {
                    m.contexts.insert(sig.clone(), cx);
                    m.violations.insert(sig, (count, x["case"].clone(), detail, size, profile.clone()));
                }
            }
        }
    }
    if let Some(a) = v.get("samples").and_then(|x| x.as_array()) {
        for s in a {
            if m.samples.len() < 12 && !m.samples.contains(s) {
                m.samples.push(s.clone());
            }
        }
    }
    if let Some(o) = v.get("extra").and_then(|x| x.as_object()) {
        for (k, x) in o {
            // numeric extras add up, everything else: first writer wins
            match (m.extra.get(k).and_then(|y| y.as_u64()), x.as_u64()) {
                (Some(a), Some(b)) => {
                    m.extra.insert(k.clone(), json!(a + b));
                }
                (None, _) if !m.extra.contains_key(k) => {
                    m.extra.insert(k.clone(), x.clone());
                }
                _ => {
                    if let (Some(a), Some(b)) = (m.extra.get(k).and_then(|y| y.as_object()).cloned(), x.as_object()) {
                        // maps of counters add up key-wise
                        let mut a = a;
                        for (kk, vv) in b {
                            let cur = a.get(kk).and_then(|y| y.as_u64());
                            match (cur, vv.as_u64()) {
                                (Some(p), Some(q)) => {
                                    a.insert(kk.clone(), json!(p + q));
                                }
                                (None, _) => {
                                    a.insert(kk.clone(), vv.clone());
                                }
                                _ => {}
                            }
                        }
                        m.extra.insert(k.clone(), Value::Object(a));
                    }
                }
            }
        }
    }
    if let Some(c) = v.get("capped").and_then(|x| x.as_str()) {
        m.capped.push(c.to_string());
    }
    if let Ok(mut f) = std::fs::File::open(hashes) {
        let mut b = Vec::new();
        let _ = f.read_to_end(&mut b);
        for ch in b.chunks_exact(8) {
            m.nontrivial.insert(u64::from_le_bytes(ch.try_into().unwrap()));
        }
    }
}

struct Job {
    profile: String,
    shard: u64,
    nshards: u64,
    start_after: u64,
    attempt: u32,
}

fn out_prefix(scratch: &Path, j: &Job) -> PathBuf {
    scratch.join(format!("{}-{}-{}", j.profile, j.shard, j.attempt))
}

fn spawn(prop: &str, tier: Tier, scratch: &Path, j: &Job, only: Option<u64>, tag: &str) -> std::io::Result<(std::process::Child, PathBuf)> {
    let pre = if tag.is_empty() {
        out_prefix(scratch, j)
    } else {
        scratch.join(format!("{}-{}-{}-{}", j.profile, j.shard, j.attempt, tag))
    };
    let so = std::fs::File::create(pre.with_extension("stdout"))?;
    let se = std::fs::File::create(pre.with_extension("stderr"))?;
    let mut c = Command::new(bin_for(&j.profile));
    c.arg("worker")
        .arg(prop)
        .arg(tier.name())
        .arg(j.shard.to_string())
        .arg(j.nshards.to_string())
        .arg(&pre)
        .arg("--start-after")
        .arg(j.start_after.to_string());
    if let Some(n) = only {
        c.arg("--only").arg(n.to_string());
    }
    c.stdin(Stdio::null()).stdout(so).stderr(se);
    Ok((c.spawn()?, pre))
}

fn read_json(p: &Path) -> Option<Value> {
    // a library change can hand back a `String` that is not UTF-8; the report then carries those bytes
    let b = std::fs::read(p).ok()?;
    serde_json::from_str(&String::from_utf8_lossy(&b)).ok()
}

fn parse_crash(pre: &Path) -> Option<(String, u64, u64)> {
    let s = std::fs::read_to_string(pre.with_extension("crash")).ok()?;
    let line = s.lines().next()?;
    let mut it = line.split_whitespace();
    let kind = it.next()?.to_string();
    let sig: u64 = it.next()?.parse().ok()?;
    let case: u64 = it.next()?.parse().ok()?;
    Some((kind, sig, case))
}

/// Parse /verif/known_findings.txt: only `known:` lines suppress anything.
pub fn known_findings() -> Vec<Value> {
    let text = std::fs::read_to_string(Path::new(VERIF_ROOT).join("known_findings.txt")).unwrap_or_default();
    let mut out = Vec::new();
    for line in text.lines() {
        let line = line.trim();
        let (status, rest) = if let Some(r) = line.strip_prefix("known:") {
            ("known", r.trim())
        } else if let Some(r) = line.strip_prefix("fixed:") {
            ("fixed", r.trim())
        } else {
            continue;
        };
        let Some(r) = rest.strip_prefix("property=") else { continue };
        let (prop, r) = r.split_once(' ').unwrap_or((r, ""));
        let mut sig = String::new();
        let mut what = r.to_string();
        if let Some(q) = r.strip_prefix("sig=\"") {
            if let Some(end) = q.find('"') {
                sig = q[..end].to_string();
                what = q[end + 1..].trim().to_string();
            }
        }
        out.push(json!({"property": prop, "status": status, "signature": sig, "what": what}));
    }
    out
}

fn sig_hash(s: &str) -> String {
    format!("{:016x}", crate::ctx::fnv(s.as_bytes(), 7))
}

pub fn run(prop: &str, tier: Tier) -> i32 {
    let t0 = Instant::now();
    let def: PropDef = match props::find(prop) {
        Some(d) => d,
        None => {
            eprintln!("machinery: unknown property {prop}");
            return 2;
        }
    };
    if let Err(e) = crate::spec::self_test() {
        eprintln!("machinery: specification self test failed: {e}");
        return 2;
    }
    if let Err(e) = crate::selfcheck::spec_consistency() {
        eprintln!("machinery: specification consistency check failed: {e}");
        return 2;
    }
    let seed: u64 = std::env::var("VERIF_SEED").ok().and_then(|s| s.parse().ok()).unwrap_or(0);
    let jobs_max: usize = std::env::var("VERIF_JOBS").ok().and_then(|s| s.parse().ok()).unwrap_or(16);
    let scratch = Path::new(VERIF_ROOT).join("scratch").join(format!("{}-{}-{}", prop, tier.name(), std::process::id()));
    let _ = std::fs::remove_dir_all(&scratch);
    if let Err(e) = std::fs::create_dir_all(&scratch) {
        eprintln!("machinery: cannot create scratch dir: {e}");
        return 2;
    }
    let code = run_inner(&def, tier, seed, jobs_max, &scratch, t0);
    let _ = std::fs::remove_dir_all(&scratch);
    code
}

fn run_inner(def: &PropDef, tier: Tier, seed: u64, jobs_max: usize, scratch: &Path, t0: Instant) -> i32 {
    let prop = def.id;
    let nshards = (def.shards)(tier);
    let mut queue: Vec<Job> = Vec::new();
    for p in def.profiles {
        if !bin_for(p).exists() {
            eprintln!("machinery: missing binary for profile {p}: {}", bin_for(p).display());
            return 2;
        }
        for s in 0..nshards {
            queue.push(Job {
                profile: p.to_string(),
                shard: s,
                nshards,
                start_after: 0,
                attempt: 0,
            });
        }
    }
    queue.reverse();
    let mut running: Vec<(std::process::Child, PathBuf, Job)> = Vec::new();
    let mut merged = Merged {
        nontrivial_mod: 1,
        ..Default::default()
    };
    let mut machinery_errors: Vec<String> = Vec::new();
    let max_restarts = 40;
    let mut confirmed_deaths: BTreeMap<(String, u64), u32> = BTreeMap::new();
    while !queue.is_empty() || !running.is_empty() {
        while running.len() < jobs_max && !queue.is_empty() {
            let j = queue.pop().unwrap();
            match spawn(prop, tier, scratch, &j, None, "") {
                Ok((c, pre)) => running.push((c, pre, j)),
                Err(e) => {
                    eprintln!("machinery: cannot spawn worker: {e}");
                    return 2;
                }
            }
        }
        // wait for any
        let mut finished: Option<usize> = None;
        for (i, (c, _, _)) in running.iter_mut().enumerate() {
            if let Ok(Some(_)) = c.try_wait() {
                finished = Some(i);
                break;
            }
        }
        let Some(i) = finished else {
            std::thread::sleep(std::time::Duration::from_millis(5));
            continue;
        };
        let (mut c, pre, j) = running.swap_remove(i);
        let status = c.wait().ok();
        let ok = status.map(|s| s.success()).unwrap_or(false);
        // stdout / stderr of a worker must be empty: the harness prints nothing there, so any
        // octet comes from the code under test (C19) or is a machinery problem
        let so = std::fs::read(pre.with_extension("stdout")).unwrap_or_default();
        let se = std::fs::read(pre.with_extension("stderr")).unwrap_or_default();
        if ok {
            match read_json(&pre.with_extension("json")) {
                Some(v) => {
                    merge_worker(&mut merged, &v, &pre.with_extension("hashes"));
                }
                None => machinery_errors.push(format!("worker {}/{} wrote no report", j.profile, j.shard)),
            }
            if !so.is_empty() || !se.is_empty() {
                if def.fd_monitor {
                    let text = String::from_utf8_lossy(if so.is_empty() { &se } else { &so });
                    let first = text.lines().next().unwrap_or("").chars().take(160).collect::<String>();
                    let which = if so.is_empty() { "stderr" } else { "stdout" };
                    let sig = format!("{prop} output-on-{which}");
                    let e = merged.violations.entry(sig).or_insert((
                        0,
                        json!({"kind":"fd","which":which,"first_line":first, "bytes": so.len() + se.len()}),
                        format!("worker process received {} octets on {which}; first line: {first}", so.len() + se.len()),
                        0,
                        j.profile.clone(),
                    ));
                    e.0 += 1;
                } else {
                    // a worker that finished normally printed nothing itself (machinery failures
                    // exit non-zero): these octets come from the code under test, which is
                    // C19's business, not this property's
                    merged.extra.insert("note_output_from_code_under_test".into(), json!("worker stdout/stderr not empty: see C19"));
                }
            }
            continue;
        }
        // abnormal exit: crash, hang or machinery failure
        match parse_crash(&pre) {
            Some((kind, signo, case_no)) if case_no > 0 => {
                merged.crashes += 1;
                // reproduce that single case twice in fresh processes, materialising it first.
                // Once the same kind of death has been confirmed a few times in this run, later
                // ones are attributed without the (slow) reproduction and hung shards are not
                // resumed: the verdict is already decided, only coverage is lost (and reported).
                let confirmed_before = *confirmed_deaths.get(&(kind.clone(), signo)).unwrap_or(&0);
                let skip_repro = confirmed_before >= if kind == "HANG" { 1 } else { 3 };
                let mut same = if skip_repro { 2 } else { 0 };
                let mut case_json = Value::Null;
                for rep in 0..(if skip_repro { 0 } else { 2 }) {
                    let rj = Job {
                        profile: j.profile.clone(),
                        shard: j.shard,
                        nshards: j.nshards,
                        start_after: case_no - 1,
                        attempt: j.attempt,
                    };
                    if let Ok((mut rc, rpre)) = spawn(prop, tier, scratch, &rj, Some(case_no), &format!("rep{rep}")) {
                        let _ = rc.wait();
                        if let Some((k2, s2, c2)) = parse_crash(&rpre) {
                            if k2 == kind && s2 == signo && c2 == case_no {
                                same += 1;
                            }
                        }
                        if let Some(v) = read_json(&rpre.with_extension("inflight")) {
                            case_json = v;
                        }
                    }
                }
                if same == 2 {
                    *confirmed_deaths.entry((kind.clone(), signo)).or_insert(0) += 1;
                    let what = if kind == "HANG" {
                        "hang (no progress for the watchdog interval)".to_string()
                    } else {
                        let stderr_text = String::from_utf8_lossy(&se).to_string();
                        let reason = stderr_text.lines().find(|l| !l.trim().is_empty()).unwrap_or("").chars().take(200).collect::<String>();
                        format!("process killed by signal {signo}: {reason}")
                    };
                    let class = if kind == "HANG" {
                        "hang".to_string()
                    } else {
                        let t = String::from_utf8_lossy(&se).to_string();
                        format!("abort-{}", crate::ctx::panic_class(&t))
                    };
                    let sig = format!("{prop} {class} sig{signo}");
                    let e = merged
                        .violations
                        .entry(sig)
                        .or_insert((0, case_json.clone(), what.clone(), u64::MAX, j.profile.clone()));
                    e.0 += 1;
                } else {
                    machinery_errors.push(format!(
                        "worker {}/{} died at case {case_no} ({kind} {signo}) but the case did not reproduce twice ({same}/2)",
                        j.profile, j.shard
                    ));
                }
                // hangs cost a watchdog interval each: one resume per shard, then give up on it
                let limit = if kind == "HANG" { if skip_repro { 0 } else { 1 } } else { max_restarts };
                if j.attempt < limit {
                    // partial results of the dead worker are lost; resume after the fatal case
                    queue.push(Job {
                        profile: j.profile.clone(),
                        shard: j.shard,
                        nshards: j.nshards,
                        start_after: case_no,
                        attempt: j.attempt + 1,
                    });
                    merged.capped.push(format!(
                        "worker {}/{} restarted after fatal case {case_no}; cases before it in that shard were re-enumerated without being counted",
                        j.profile, j.shard
                    ));
                } else {
                    merged.capped.push(format!("worker {}/{} abandoned after {max_restarts} restarts", j.profile, j.shard));
                }
            }
            _ => {
                let text = String::from_utf8_lossy(&se);
                machinery_errors.push(format!(
                    "worker {}/{} exited with {:?}: {}",
                    j.profile,
                    j.shard,
                    status,
                    text.lines().filter(|l| !l.trim().is_empty()).last().unwrap_or("")
                ));
            }
        }
    }

    // vacuity guards
    if merged.violations.is_empty() && machinery_errors.is_empty() {
        if let Err(e) = (def.post)(tier, &merged.guards, &merged.hist) {
            machinery_errors.push(format!("vacuity guard: {e}"));
        }
    }

    // violations: replay files, reproduction, known findings
    let known = known_findings();
    let replay_dir = Path::new(VERIF_ROOT).join("replays").join(prop);
    let _ = std::fs::create_dir_all(&replay_dir);
    let mut lines: Vec<String> = Vec::new();
    let mut n_new = 0;
    let mut n_known = 0;
    let mut viol_report: Vec<Value> = Vec::new();
    for (sig, (count, case, detail, _size, profile)) in &merged.violations {
        let path = replay_dir.join(format!("{}.json", sig_hash(sig)));
        let doc = json!({"property": prop, "signature": sig, "profile": profile, "tier": tier.name(), "detail": detail, "count": count, "case": case,
            "context": merged.contexts.get(sig).cloned().unwrap_or(Value::Null)});
        let _ = std::fs::write(&path, serde_json::to_string_pretty(&doc).unwrap());
        let kf = known.iter().find(|k| {
            k.get("property").and_then(|x| x.as_str()) == Some(prop)
                && k.get("status").and_then(|x| x.as_str()) == Some("known")
                && k.get("signature").and_then(|x| x.as_str()) == Some(sig.as_str())
        });
        // reproduce in a fresh process, twice (only meaningful for replayable case kinds)
        let mut reproduced = true;
        if case.get("kind").and_then(|x| x.as_str()) != Some("fd") && !case.is_null() && n_new + n_known < 24 {
            for _ in 0..2 {
                let child = Command::new(bin_for(profile))
                    .arg("replay")
                    .arg(&path)
                    .stdin(Stdio::null())
                    .stdout(Stdio::null())
                    .stderr(Stdio::null())
                    .spawn();
                let code = match child {
                    Ok(mut ch) => {
                        // the replay process has its own 20 s watchdog; belt and braces here
                        let t = Instant::now();
                        loop {
                            match ch.try_wait() {
                                Ok(Some(st)) => break st.code(),
                                Ok(None) if t.elapsed().as_secs() > 120 => {
                                    let _ = ch.kill();
                                    let _ = ch.wait();
                                    break Some(135);
                                }
                                Ok(None) => std::thread::sleep(std::time::Duration::from_millis(10)),
                                Err(_) => break None,
                            }
                        }
                    }
                    Err(_) => Some(2),
                };
                match code {
                    Some(1) | None | Some(134) | Some(135) => (),
                    _ => reproduced = false,
                }
            }
        }
        if !reproduced {
            machinery_errors.push(format!(
                "violation {sig} was observed in the sweep but did not reproduce twice in a fresh process from its replay file {} — the result depends on call history or timing (see C19) or the harness is nondeterministic; not reported as a verdict",
                path.display()
            ));
            continue;
        }
        viol_report.push(json!({"signature": sig, "count": count, "detail": detail, "replay": path.to_string_lossy(), "known": kf.is_some()}));
        match kf {
            Some(k) => {
                n_known += 1;
                lines.push(format!(
                    "KNOWN-FINDING: property={prop} {} [{}]",
                    k.get("what").and_then(|x| x.as_str()).unwrap_or(sig),
                    sig
                ));
            }
            None => {
                n_new += 1;
                lines.push(format!("VIOLATION property={prop} replay={}", path.display()));
                lines.push(format!("  signature: {sig}"));
                lines.push(format!("  cases: {count}  detail: {detail}"));
            }
        }
    }

    // evidence
    let wall = t0.elapsed().as_secs_f64();
    // both profiles walk the same choice tree: report the tree once (the larger count), the
    // executions of both
    merged.states = merged.per_profile.values().map(|v| v.1).max().unwrap_or(0);
    merged.transitions = merged.per_profile.values().map(|v| v.2).max().unwrap_or(0);
    let exhaustive = merged.capped.is_empty() && machinery_errors.is_empty();
    let mut coverage = serde_json::Map::new();
    coverage.insert("states".into(), json!(merged.states.max(1)));
    coverage.insert("transitions".into(), json!(merged.transitions.max(1)));
    coverage.insert("traces_validated_against_impl".into(), json!(merged.executions));
    coverage.insert("evaluations".into(), json!(merged.executions.max(1)));
    coverage.insert("distinct_nontrivial".into(), json!(merged.nontrivial.len() as u64 + merged.nontrivial_direct));
    coverage.insert(
        "rule".into(),
        json!(format!(
            "{} Distinctness: 64-bit hash of the materialised case{}; the union over all workers is counted.",
            def.rule,
            if merged.nontrivial_mod > 1 {
                format!(", only hashes divisible by {} are kept so the figure is a lower bound", merged.nontrivial_mod)
            } else {
                String::new()
            }
        )),
    );
    coverage.insert("samples".into(), json!(if merged.samples.is_empty() { vec![json!("none")] } else { merged.samples.clone() }));
    coverage.insert("exhaustive".into(), json!(exhaustive));
    coverage.insert("bounds".into(), json!((def.bounds)(tier)));
    coverage.insert("outcome_classes".into(), json!(merged.hist));
    coverage.insert("vacuity_guards".into(), json!(merged.guards));
    coverage.insert(
        "per_profile".into(),
        json!(merged.per_profile.iter().map(|(k, v)| (k.clone(), json!({"executions": v.0, "states": v.1, "transitions": v.2}))).collect::<BTreeMap<_, _>>()),
    );
    coverage.insert("workers".into(), json!({"shards": nshards, "profiles": def.profiles}));
    coverage.insert("crashes_attributed".into(), json!(merged.crashes));
    if !merged.capped.is_empty() {
        coverage.insert("caps_hit".into(), json!(merged.capped));
    }
    for (k, v) in &merged.extra {
        coverage.insert(k.clone(), v.clone());
    }
    coverage.insert("violation_report".into(), json!(viol_report));
    coverage.insert("known_findings_matched".into(), json!(n_known));
    if !machinery_errors.is_empty() {
        coverage.insert("machinery_errors".into(), json!(machinery_errors));
    }
    let ev = json!({
        "property_id": prop,
        "tier": tier.name(),
        "seed": seed,
        "level": "model_checking",
        "coverage": Value::Object(coverage),
        "assumptions": def.assumptions,
        "wall_s": wall,
        "violations": n_new,
    });
    let evdir = Path::new(VERIF_ROOT).join("evidence");
    let _ = std::fs::create_dir_all(&evdir);
    if let Err(e) = std::fs::write(evdir.join(format!("{prop}.json")), serde_json::to_string_pretty(&ev).unwrap()) {
        eprintln!("machinery: cannot write evidence: {e}");
        return 2;
    }

    for l in &lines {
        println!("{l}");
    }
    println!(
        "{prop} {}: states={} transitions={} executions={} distinct_nontrivial={} outcome_classes={} violations={} known={} wall={:.1}s",
        tier.name(),
        merged.states,
        merged.transitions,
        merged.executions,
        merged.nontrivial.len() as u64 + merged.nontrivial_direct,
        merged.hist.len(),
        n_new,
        n_known,
        wall
    );
    if n_new > 0 {
        return 1;
    }
    if !machinery_errors.is_empty() {
        for e in &machinery_errors {
            eprintln!("machinery: {e}");
        }
        return 2;
    }
    0
}
