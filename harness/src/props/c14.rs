//! C14 — validation options only restrict; each checks exactly its own bits; default = version.
//! Complete over all 65 536 flag words x 8 option sets (+ try_read) x the W1 body templates.

use super::*;
use crate::ctx::{fnv, Ctx};
use crate::gen;
use crate::run::{self, ReaderKind};
use crate::spec::{self, hex, unhex, SMessage};
use serde_json::{json, Value};

pub fn defs() -> Vec<PropDef> {
    vec![PropDef {
        id: "C14",
        profiles: BOTH,
        shards: sixteen,
        run: run_c14,
        replay: replay_c14,
        post: post_c14,
        rule: "Complete enumeration: every 16-bit flag word x 10 body templates; each input is decoded under all 8 option sets and through try_read, and again with the version nibble / reserved bits / control P,O bits normalised; the 9-column result row is checked for monotonicity, exactness of each check and independence from switched-off bits. Non-trivial: at least one option set accepts the input, or the row is not constant.",
        bounds: |_| json!({"flag_words": 65536, "templates_per_word": 10, "option_sets": 8, "plus": "Message::try_read"}),
        assumptions: COMMON_ASSUMPTIONS,
        fd_monitor: false,
        mem_gb: mem4,
        watchdog_s: wd,
        deadline_s: no_deadline,
    }]
}

fn post_c14(_t: Tier, g: &Guards, _h: &Guards) -> Result<(), String> {
    for k in ["version-other-than-2", "reserved-bit-set", "control-with-P-or-O", "accepted-under-strict", "accepted-only-under-weaker"] {
        if !g.contains_key(k) {
            return Err(format!("C14 guard {k} never hit"));
        }
    }
    Ok(())
}

type Res = Option<Result<SMessage, ()>>;

fn dec(bytes: &[u8], opts: Option<u8>) -> Res {
    let (r, obs) = run::decode_msg(ReaderKind::R2a, bytes, opts, false);
    let mon = obs.mon.unwrap();
    if !mon.violations.is_empty() {
        return None;
    }
    match r {
        Ok(Ok(m)) => Some(Ok(m)),
        Ok(Err(_)) => Some(Err(())),
        Err(_) => None,
    }
}

/// the full result, error list included (the default entry point must EQUAL version-only decoding)
fn dec_full(bytes: &[u8], opts: Option<u8>) -> Option<run::MsgOut> {
    let (r, obs) = run::decode_msg(ReaderKind::R2a, bytes, opts, false);
    if !obs.mon.unwrap().violations.is_empty() {
        return None;
    }
    r.ok()
}

fn case_json(bytes: &[u8]) -> Value {
    json!({"kind":"flagrow","hex":hex(bytes)})
}

fn check_row(ctx: &mut Ctx, bytes: &[u8]) {
    let flags = ((bytes[0] as u16) << 8) | bytes[1] as u16;
    let row: Vec<Res> = (0..8u8).map(|o| dec(bytes, Some(o))).collect();
    if row.iter().any(|r| r.is_none()) {
        ctx.tally("no-result (panic or out-of-contract read: see C01/C02)");
        return;
    }
    let row: Vec<Result<SMessage, ()>> = row.into_iter().map(|r| r.unwrap()).collect();
    let viol = |ctx: &mut Ctx, sig: &str, detail: String| {
        ctx.violation(format!("C14 {sig}"), detail, bytes.len(), || case_json(bytes));
    };
    let is_control = flags & spec::F_T != 0;
    let ver = spec::version_of(flags);
    let has_reserved = flags & spec::F_RESERVED != 0;
    let ctl_unused = is_control && flags & (spec::F_P | spec::F_O) != 0;
    if ver != 2 {
        ctx.guard("version-other-than-2");
    }
    if has_reserved {
        ctx.guard("reserved-bit-set");
    }
    if ctl_unused {
        ctx.guard("control-with-P-or-O");
    }
    // (a) monotonicity over the whole lattice
    for strong in 0..8usize {
        for weak in 0..8usize {
            if weak & strong == weak && weak != strong {
                if let Ok(m) = &row[strong] {
                    if row[weak].as_ref() != Ok(m) {
                        viol(
                            ctx,
                            "not-monotone",
                            format!("accepted under options {strong:03b} as {m:?} but {:?} under weaker {weak:03b}", row[weak]),
                        );
                    }
                }
            }
        }
    }
    // (b) each check rejects exactly its own bits
    for base in 0..8u8 {
        for (bit, name, fires) in [
            (spec::OPT_VERSION, "version", ver != 2),
            (spec::OPT_RESERVED, "reserved", has_reserved),
            (spec::OPT_UNUSED, "unused", ctl_unused),
        ] {
            if base & bit != 0 {
                continue;
            }
            let with = &row[(base | bit) as usize];
            let without = &row[base as usize];
            if fires {
                if with.is_ok() {
                    viol(ctx, &format!("{name}-check-does-not-reject"), format!("options {:03b} accept flag word {flags:#06x}", base | bit));
                }
            } else if with != without {
                viol(
                    ctx,
                    &format!("{name}-check-rejects-foreign-bits"),
                    format!("flag word {flags:#06x}: options {:03b} give {:?}, options {base:03b} give {:?}", base | bit, with, without),
                );
            }
        }
    }
    // (c) with a check off its bits do not affect the result
    let mut buf = bytes.to_vec();
    for base in 0..8u8 {
        for (bit, name) in [(spec::OPT_VERSION, "version"), (spec::OPT_RESERVED, "reserved"), (spec::OPT_UNUSED, "unused")] {
            if base & bit != 0 {
                continue;
            }
            let norm: u16 = match name {
                "version" => (flags & !0x00f0) | (2 << 4),
                "reserved" => flags & !spec::F_RESERVED,
                _ => {
                    if is_control {
                        flags & !(spec::F_P | spec::F_O)
                    } else {
                        flags
                    }
                }
            };
            if norm == flags {
                continue;
            }
            buf[0] = (norm >> 8) as u8;
            buf[1] = norm as u8;
            let other = dec(&buf, Some(base));
            if other.as_ref() != Some(&row[base as usize]) {
                viol(
                    ctx,
                    &format!("{name}-bits-matter-with-check-off"),
                    format!("options {base:03b}: flag word {flags:#06x} gives {:?}, normalised {norm:#06x} gives {:?}", row[base as usize], other),
                );
            }
        }
    }
    // (d) default entry point = version checking alone
    let d = dec(bytes, None);
    if d.as_ref() != Some(&row[spec::OPT_VERSION as usize]) {
        viol(ctx, "try_read-differs-from-version-only", format!("try_read gives {:?}, try_read_validate(version only) gives {:?}", d, row[2]));
    } else {
        // ... including the errors of a rejection
        let (a, b) = (dec_full(bytes, None), dec_full(bytes, Some(spec::OPT_VERSION)));
        if let (Some(Err(ea)), Some(Err(eb))) = (&a, &b) {
            if ea != eb {
                viol(ctx, "try_read-errors-differ-from-version-only", format!("try_read rejects with {ea:?}, try_read_validate(version only) with {eb:?}"));
            }
        }
    }
    let n_ok = row.iter().filter(|r| r.is_ok()).count();
    if row[7].is_ok() {
        ctx.guard("accepted-under-strict");
    } else if n_ok > 0 {
        ctx.guard("accepted-only-under-weaker");
    }
    ctx.tally(&format!("accepting-option-sets-{n_ok}"));
    if n_ok > 0 {
        ctx.note_nontrivial(fnv(bytes, 14));
    }
    ctx.sample(|| case_json(bytes));
}

fn run_c14(ctx: &mut Ctx) {
    ctx.nontrivial_mod = 1;
    let mut buf = Vec::new();
    for flags in 0..=0xffffu32 {
        if !ctx.mine() {
            continue;
        }
        ctx.states += 1;
        ctx.transitions += 1;
        let flags = flags as u16;
        for t in gen::w1_templates(flags) {
            buf.clear();
            buf.extend_from_slice(&flags.to_be_bytes());
            buf.extend_from_slice(&t);
            // 9 decodes of the row + up to 12 normalised decodes, all on the real decoder
            ctx.states += 9;
            ctx.transitions += 9;
            let b = buf.clone();
            let desc = || case_json(&b);
            ctx.case(&desc, |ctx| check_row(ctx, &b));
        }
    }
}

fn replay_c14(ctx: &mut Ctx, v: &Value) {
    let Some(bytes) = v["hex"].as_str().and_then(unhex) else {
        eprintln!("machinery: bad C14 replay case");
        std::process::exit(2);
    };
    let desc = || case_json(&bytes);
    ctx.case(&desc, |ctx| check_row(ctx, &bytes));
    for o in 0..8u8 {
        println!("  options {o:03b} (unused,version,reserved): {:?}", dec(&bytes, Some(o)));
    }
    println!("  try_read: {:?}", dec(&bytes, None));
}
