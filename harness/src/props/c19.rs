//! C19 — purity: nothing on stdout/stderr, no state between calls, same result on every thread.
//!
//! (a) silence: the worker's fds 1 and 2 are files that must stay empty (driver-side monitor)
//!     while it runs decode of every AVP kind and error class, Display of every error, encode,
//!     hide and reveal;
//! (b1) call histories: every sequence of calls over a 12-call alphabet up to the bound, each
//!     result compared with the result of the same call made first in a pristine process;
//! (b2) long histories: the wire sweep run twice in one process, plain and with a rotating
//!     disturbance call before every case; each case must give the same result in both;
//! (c) SCHED: loom explores every interleaving (up to a preemption bound) of pairs of calls on
//!     two threads, scheduling points at every Reader / Writer call the library makes;
//! (d) free-running complement on 16 OS threads (not the deciding step).

use super::*;
use crate::bridge;
use crate::ctx::{fnv, guarded, Ctx};
use crate::gen::{self, ramp, Entry, WireCase};
use crate::spec::{self, hex, SAvp, SMessage, SVal};
use crate::vgen;
use rl2tp::avp::types::RandomVector;
use rl2tp::avp::AVP;
use rl2tp::common::{Reader, Writer};
use rl2tp::Message;
use serde_json::{json, Value};
use std::sync::atomic::{AtomicU64, Ordering};
use std::sync::Mutex;

pub fn defs() -> Vec<PropDef> {
    vec![PropDef {
        id: "C19",
        profiles: BOTH,
        shards: sixteen,
        run: run_c19,
        replay: replay_c19,
        post: |_, g, _| {
            for k in ["silence-sweep", "histories", "histories-fresh-process", "long-history", "loom-pairs", "free-running", "render-history", "refusal-history"] {
                if !g.contains_key(k) {
                    return Err(format!("C19 guard {k} never hit"));
                }
            }
            Ok(())
        },
        rule: "(a) fd monitor over a sweep of decode/encode/hide/reveal/Display calls; (b1) HIST: every call history over a 12-call alphabet up to depth 3 (quick) / 4 (thorough) walked on the main thread and on a reused worker thread, each result compared with the same call made first in a pristine process, histories up to depth 2 (3) additionally each in its own fresh process; (b2) the message/AVP-list wire sweep as one long history, plain and disturbed; (b3) ~5000 representative inputs decoded in the long-running worker, amid ordinary traffic, and in three pristine processes (forward order, reverse order, amid ordinary traffic), all five must agree; (c) SCHED: loom, all unordered pairs of the call alphabet on two threads (thorough: also selected triples on three), scheduling point at every Reader/Writer trait call, preemption bound 2 (quick) / 3 (thorough); (c2) the same pairs against a copy of the tree in which std::sync primitives are replaced by instrumented ones, adding a scheduling point at every lock / unlock / atomic operation of the library (best effort: skipped when that copy does not build); (d) 16 free-running OS threads; (e) every call and the whole sweep in pristine processes under an LD_PRELOAD shim that logs getenv / clock / getrandom / getcwd / socket / open calls (none may occur). states = choice-tree nodes + history prefixes + loom schedules; distinct non-trivial = distinct call histories with at least two calls + distinct schedules explored by loom (loom does not repeat a schedule) + distinct wire cases of the long history.",
        bounds: |t| json!({"call_alphabet": 12, "history_depth": if t.thorough() {4} else {3}, "fresh_process_depth": if t.thorough() {3} else {2}, "loom": {"threads": if t.thorough() {"2 and 3"} else {"2"}, "preemption_bound": if t.thorough() {3} else {2}, "scheduling_points": "every Reader/Writer trait call made by the library (hide/reveal have none)"}, "free_running_threads": 16}),
        assumptions: &[
            "loom only sees thread switches at the seams (Reader/Writer calls); shared state read-modified-written entirely between two seams, or inside hide/reveal which use no caller-supplied reader or writer, is invisible to (c) and is covered only by (b) and (d)",
            "sequential consistency; weak-memory effects are not modelled",
            "the reference results are those of the same call made first in a pristine process",
        ],
        fd_monitor: true,
        mem_gb: |_| 8,
        watchdog_s: |_| 120,
        deadline_s: no_deadline,
    }]
}

// ---------------------------------------------------------------------------------------------
// seam reader / writer: one scheduling point per trait call

pub trait Tick: Clone {
    fn tick(&self);
}

#[derive(Clone)]
pub struct NoTick;
impl Tick for NoTick {
    #[inline]
    fn tick(&self) {}
}

#[derive(Clone)]
pub struct LoomTick(pub loom::sync::Arc<loom::sync::atomic::AtomicUsize>);
impl Tick for LoomTick {
    #[inline]
    fn tick(&self) {
        self.0.fetch_add(1, loom::sync::atomic::Ordering::SeqCst);
    }
}

pub struct SeamReader<'a, K: Tick> {
    data: &'a [u8],
    tick: K,
}

impl<'a, K: Tick> SeamReader<'a, K> {
    pub fn new(data: &'a [u8], tick: K) -> Self {
        SeamReader { data, tick }
    }
    fn take(&mut self, n: usize) -> &'a [u8] {
        let n = n.min(self.data.len());
        let (a, b) = self.data.split_at(n);
        self.data = b;
        a
    }
    fn num(&mut self, n: usize) -> u64 {
        self.tick.tick();
        self.take(n).iter().fold(0u64, |a, x| (a << 8) | *x as u64)
    }
}

impl<'a, K: Tick> Reader<&'a [u8]> for SeamReader<'a, K> {
    fn is_empty(&self) -> bool {
        self.data.is_empty()
    }
    fn len(&self) -> usize {
        self.data.len()
    }
    fn subreader(&mut self, length: usize) -> Self {
        self.tick.tick();
        let d = self.take(length);
        SeamReader {
            data: d,
            tick: self.tick.clone(),
        }
    }
    fn bytes(&mut self, length: usize) -> Option<&'a [u8]> {
        self.tick.tick();
        if length > self.data.len() {
            return None;
        }
        Some(self.take(length))
    }
    unsafe fn read_u8_unchecked(&mut self) -> u8 {
        self.num(1) as u8
    }
    unsafe fn read_u16_be_unchecked(&mut self) -> u16 {
        self.num(2) as u16
    }
    unsafe fn read_u32_be_unchecked(&mut self) -> u32 {
        self.num(4) as u32
    }
    unsafe fn read_u64_be_unchecked(&mut self) -> u64 {
        self.num(8)
    }
    fn skip_bytes(&mut self, length: usize) {
        self.tick.tick();
        self.take(length);
    }
}

pub struct SeamWriter<K: Tick> {
    pub data: Vec<u8>,
    tick: K,
}

impl<K: Tick> Writer for SeamWriter<K> {
    fn is_empty(&self) -> bool {
        self.data.is_empty()
    }
    fn len(&self) -> usize {
        self.data.len()
    }
    fn write_bytes(&mut self, bytes: &[u8]) {
        self.tick.tick();
        self.data.extend_from_slice(bytes);
    }
    fn write_bytes_at(&mut self, bytes: &[u8], offset: usize) {
        self.tick.tick();
        if offset + bytes.len() <= self.data.len() {
            self.data[offset..offset + bytes.len()].copy_from_slice(bytes);
        }
    }
    fn write_u8(&mut self, value: u8) {
        self.tick.tick();
        self.data.push(value);
    }
    fn write_u16_be(&mut self, value: u16) {
        self.tick.tick();
        self.data.extend_from_slice(&value.to_be_bytes());
    }
    fn write_u32_be(&mut self, value: u32) {
        self.tick.tick();
        self.data.extend_from_slice(&value.to_be_bytes());
    }
    fn write_u64_be(&mut self, value: u64) {
        self.tick.tick();
        self.data.extend_from_slice(&value.to_be_bytes());
    }
}

// ---------------------------------------------------------------------------------------------
// call alphabet

pub const N_CALLS: usize = 12;
pub const CALL_NAMES: [&str; N_CALLS] = [
    "decode-control-ok",
    "decode-control-bad-avps",
    "decode-control-message-type-0",
    "decode-zlb",
    "decode-data",
    "decode-avps",
    "encode-control",
    "encode-data",
    "encode-avp",
    "hide",
    "reveal-ok",
    "reveal-wrong-key",
];

fn inputs() -> Vec<Vec<u8>> {
    let menu = gen::record_menu();
    let rec = |names: &[&str]| -> Vec<u8> {
        let mut b = Vec::new();
        for n in names {
            b.extend_from_slice(&menu.iter().find(|r| r.name == *n).unwrap().bytes);
        }
        b
    };
    // every call carries different header field values, so that anything remembered from one
    // call (a first tunnel id, a last Ns, a cached length) shows in the digest of another
    let ctl = |ids: [u16; 4], body: &[u8]| {
        let mut v = gen::control_header(spec::F_CANON_CONTROL, (12 + body.len()) as u16, ids[0], ids[1], ids[2], ids[3]);
        v.extend_from_slice(body);
        v
    };
    let mut data = [&[0xc2u8 | 0x10, 0x20][..], &gen::consistent_data_body(0xd220, &[0xa1, 0xa2, 0xa3], 1)].concat();
    data[4] = 0x7e; // tunnel id of the data message differs from every control message's
    vec![
        ctl([0x0102, 0x0304, 0x0506, 0x0708], &rec(&["message_type", "u16", "utf8"])),
        ctl([0x1112, 0x1314, 0x1516, 0x1718], &rec(&["message_type", "vendor", "bad_utf8", "truncated"])),
        ctl([0x2122, 0x2324, 0x2526, 0x2728], &gen::avp_record(0x01, 0, 0, &[0, 0])),
        ctl([0x3132, 0x3334, 0x3536, 0x3738], &[]),
        data,
        rec(&["message_type", "unknown_attr", "hidden", "bad_error_type", "stray"]),
    ]
}

fn control_value() -> Message<Vec<u8>> {
    bridge::message_to_crate(&SMessage::Control {
        length: 0,
        tid: 0x4142,
        sid: 0x4344,
        ns: 0x4546,
        nr: 0x4748,
        avps: vec![SAvp::Plain { attr: 0, val: SVal::MessageType(2) }, vgen::canonical(8), vgen::canonical(1)],
    })
    .unwrap()
}

fn data_value() -> Message<Vec<u8>> {
    bridge::message_to_crate(&SMessage::Data {
        prio: true,
        length: Some(17),
        tid: 0x5152,
        sid: 0x5354,
        ns_nr: Some((0x5556, 0x5758)),
        offset: None,
        data: vec![1, 2, 3],
    })
    .unwrap()
}

fn hidden_value() -> AVP {
    // three MD5 blocks: the chaining over later blocks is where a cached key would be used
    let a = bridge::avp_to_crate(&SAvp::Plain { attr: 8, val: SVal::Str(vgen::utf8_of_len(33)) }).unwrap();
    a.hide(b"secret", &RandomVector::from([1, 2, 3, 4]), &[9, 9, 9], &[7u8; 16])
}

/// Run call `i` and return a digest of everything observable about its result.
pub fn call<K: Tick>(i: usize, tick: &K) -> String {
    let ins = inputs();
    let r = guarded(|| match i {
        0 | 1 | 2 | 3 | 4 => {
            let mut r = SeamReader::new(&ins[i], tick.clone());
            let out = Message::<&[u8]>::try_read_validate(&mut r, bridge::options(spec::OPT_STRICT));
            format!("{out:?} rem={}", Reader::len(&r))
        }
        5 => {
            let mut r = SeamReader::new(&ins[5], tick.clone());
            let out = AVP::try_read_greedy(&mut r);
            let shown: Vec<String> = out
                .iter()
                .map(|x| match x {
                    Ok(a) => format!("{a:?}"),
                    Err(e) => format!("Err({e:?} / {e})"),
                })
                .collect();
            format!("{shown:?} rem={}", Reader::len(&r))
        }
        6 => {
            let mut w = SeamWriter { data: vec![0xaa], tick: tick.clone() };
            control_value().write(&mut w);
            hex(&w.data)
        }
        7 => {
            let mut w = SeamWriter { data: vec![], tick: tick.clone() };
            data_value().write(&mut w);
            hex(&w.data)
        }
        8 => {
            let mut w = SeamWriter { data: vec![1, 2, 3], tick: tick.clone() };
            bridge::avp_to_crate(&vgen::canonical(1)).unwrap().write(&mut w);
            hex(&w.data)
        }
        9 => {
            tick.tick();
            format!("{:?}", hidden_value())
        }
        10 => {
            tick.tick();
            // another AVP kind hidden with the same secret and random vector as call 9's (a key
            // cached per (secret, random vector) would be wrong for it), then both revealed
            let other = bridge::avp_to_crate(&SAvp::Plain { attr: 7, val: SVal::Bytes(ramp(20)) }).unwrap();
            let h = other.hide(b"secret", &RandomVector::from([1, 2, 3, 4]), &[4, 4], &[6u8; 16]);
            let shown = format!("{h:?}");
            format!("{shown} / {:?} / {:?}", h.reveal(b"secret", &RandomVector::from([1, 2, 3, 4])), hidden_value().reveal(b"secret", &RandomVector::from([1, 2, 3, 4])))
        }
        _ => {
            tick.tick();
            // a different secret of the same length as the other calls', a value of three blocks,
            // hidden and revealed with it, and the first call's value revealed with the wrong key
            let a = bridge::avp_to_crate(&SAvp::Plain { attr: 7, val: SVal::Bytes(ramp(40)) }).unwrap();
            let h = a.hide(b"Secret", &RandomVector::from([9, 8, 7, 6]), &[5], &[3u8; 16]);
            let shown = format!("{h:?}");
            format!(
                "{shown} / {:?} / {:?}",
                h.reveal(b"Secret", &RandomVector::from([9, 8, 7, 6])),
                hidden_value().reveal(b"Secret", &RandomVector::from([1, 2, 3, 4]))
            )
        }
    });
    match r {
        Ok(s) => s,
        Err(p) => format!("PANIC at {}: {}", p.0, p.1),
    }
}

/// inputs of the instrumented-sync driver (vh_sync): the six decode inputs and a Vendor Name record
pub fn sync_inputs_json() -> String {
    let mut v: Vec<String> = inputs().iter().map(|b| hex(b)).collect();
    v.push(hex(&gen::avp_record(0x01, 0, 8, vgen::utf8_of_len(33).as_bytes())));
    v.push(hex(&gen::avp_record(0x01, 0, 7, &ramp(40))));
    serde_json::to_string(&v).unwrap()
}

/// Run the instrumented-sync loom driver, if it was built for the current tree.
fn instrumented_sync(ctx: &mut Ctx, bound: usize) {
    let bin = "/verif/harness/target/vh_sync/release/vh_sync";
    if !std::path::Path::new(bin).exists() {
        ctx.extra.insert("instrumented_sync_mode".into(), json!("unavailable: the std::sync -> vsync copy of the tree did not build"));
        return;
    }
    let inputs = format!("/verif/scratch/c19-sync-inputs-{}.json", std::process::id());
    if std::fs::write(&inputs, sync_inputs_json()).is_err() {
        return;
    }
    let child = std::process::Command::new(bin)
        .arg(&inputs)
        .arg(bound.to_string())
        .stdin(std::process::Stdio::null())
        .stdout(std::process::Stdio::piped())
        .stderr(std::process::Stdio::null())
        .spawn();
    let Ok(mut child) = child else {
        let _ = std::fs::remove_file(&inputs);
        ctx.extra.insert("instrumented_sync_mode".into(), json!("unavailable: could not run vh_sync"));
        return;
    };
    let t0 = std::time::Instant::now();
    let limit = if ctx.tier.thorough() { 900 } else { 150 };
    let finished = loop {
        match child.try_wait() {
            Ok(Some(_)) => break true,
            Ok(None) if t0.elapsed().as_secs() >= limit => {
                let _ = child.kill();
                break false;
            }
            Ok(None) => std::thread::sleep(std::time::Duration::from_millis(20)),
            Err(_) => break false,
        }
    };
    let out = child.wait_with_output();
    let _ = std::fs::remove_file(&inputs);
    if !finished {
        ctx.extra.insert("instrumented_sync_mode".into(), json!("inconclusive: the exploration did not finish within its time limit (a blocking primitive that the source rewrite does not cover?)"));
        return;
    }
    let Ok(out) = out else { return };
    let text = String::from_utf8_lossy(&out.stdout);
    let Some(v) = text.lines().rev().find_map(|l| serde_json::from_str::<Value>(l).ok()) else {
        ctx.extra.insert("instrumented_sync_mode".into(), json!(format!("inconclusive: vh_sync produced no report (exit {:?})", out.status.code())));
        return;
    };
    let n = v["schedules"].as_u64().unwrap_or(0);
    ctx.states += n;
    ctx.transitions += n;
    ctx.executions += n;
    ctx.nontrivial_direct += n;
    ctx.extra.insert("instrumented_sync_mode".into(), json!({"schedules": n, "preemption_bound": format!("{bound}"), "baseline_stable": v["baseline_stable"], "per_pair": v["per_pair"]}));
    if v["baseline_stable"].as_bool() == Some(false) {
        // results differ between two sequential runs inside the instrumented copy: a history
        // dependence, which (b1)/(b2) decide on the real build; nothing is concluded here
        return;
    }
    if let Some(ms) = v["mismatches"].as_array() {
        for m in ms {
            let names = m["names"].as_array().map(|a| a.iter().filter_map(|x| x.as_str()).collect::<Vec<_>>().join("||")).unwrap_or_default();
            let pair = m["pair"].clone();
            ctx.violation(
                format!("C19 schedule-instrumented-sync {names}"),
                format!("threads {names}, preemption bound {bound}, scheduling points at Reader/Writer calls and at every std::sync operation of the library: {}", m["detail"].as_str().unwrap_or("")),
                2,
                || json!({"kind":"schedule-sync","pair":pair,"bound":bound}),
            );
        }
    }
    ctx.guard("instrumented-sync");
}

/// `vh c19call i,j,k` — run a history in this (fresh) process and print one digest per line.
/// `vh c19loom <i,j[,k]> <bound>`: explore one group with loom in a process of its own and print
/// `{"schedules": n, "mismatch": ...}`. Run as a subprocess with a time limit because a library
/// that takes a real (non-loom) lock and holds it across a Reader/Writer call makes loom's
/// cooperative scheduler deadlock: that is not a verdict, only "inconclusive for this engine".
pub fn loom_main(group: &str, bound: &str) -> i32 {
    crate::ctx::install_panic_hook();
    let g: Vec<usize> = group.split(',').filter_map(|x| x.parse().ok()).map(|x: usize| x % N_CALLS).collect();
    let b: usize = bound.parse().unwrap_or(2);
    // sequential baseline in this process
    let base: Vec<String> = (0..N_CALLS).map(|i| call(i, &NoTick)).collect();
    let (n, mm) = loom_group(&g, &base, b);
    println!("{}", json!({"schedules": n, "mismatch": mm}));
    0
}

/// run one loom group in a subprocess; None = no answer within the time limit (inconclusive)
fn loom_group_subprocess(g: &[usize], bound: usize, limit_s: u64) -> Option<(u64, Option<String>)> {
    let exe = std::env::current_exe().ok()?;
    let arg = g.iter().map(|i| i.to_string()).collect::<Vec<_>>().join(",");
    let mut child = std::process::Command::new(exe)
        .arg("c19loom")
        .arg(arg)
        .arg(bound.to_string())
        .stdin(std::process::Stdio::null())
        .stdout(std::process::Stdio::piped())
        .stderr(std::process::Stdio::null())
        .spawn()
        .ok()?;
    let t0 = std::time::Instant::now();
    loop {
        match child.try_wait() {
            Ok(Some(_)) => break,
            Ok(None) if t0.elapsed().as_secs() >= limit_s => {
                let _ = child.kill();
                let _ = child.wait();
                return None;
            }
            Ok(None) => std::thread::sleep(std::time::Duration::from_millis(5)),
            Err(_) => return None,
        }
    }
    let out = child.wait_with_output().ok()?;
    let text = String::from_utf8_lossy(&out.stdout);
    let v: Value = text.lines().rev().find_map(|l| serde_json::from_str(l).ok())?;
    Some((v["schedules"].as_u64().unwrap_or(0), v["mismatch"].as_str().map(|s| s.to_string())))
}

pub fn call_main(arg: &str) -> i32 {
    crate::ctx::install_panic_hook();
    if arg == "sweep" {
        // the silence sweep in a process of its own (used under the environment-access shim)
        let mut c = Ctx::new("C19", crate::ctx::Tier::Quick, 0, 1);
        silence_sweep(&mut c);
        return 0;
    }
    for part in arg.split(',') {
        let i: usize = part.parse().unwrap_or(0);
        println!("{}", call(i % N_CALLS, &NoTick));
    }
    0
}

fn fresh_process(history: &[usize]) -> Option<Vec<String>> {
    let exe = std::env::current_exe().ok()?;
    let arg = history.iter().map(|i| i.to_string()).collect::<Vec<_>>().join(",");
    let out = std::process::Command::new(exe).arg("c19call").arg(arg).stdin(std::process::Stdio::null()).output().ok()?;
    if !out.status.success() {
        return None;
    }
    Some(String::from_utf8_lossy(&out.stdout).lines().map(|s| s.to_string()).collect())
}

fn hist_json(h: &[usize], how: &str) -> Value {
    json!({"kind":"history","calls":h,"names":h.iter().map(|i| CALL_NAMES[*i]).collect::<Vec<_>>(),"how":how})
}

fn check_history(ctx: &mut Ctx, h: &[usize], base: &[String], how: &str) {
    let got: Option<Vec<String>> = match how {
        "fresh-process" => fresh_process(h),
        _ => Some(h.iter().map(|i| call(*i, &NoTick)).collect()),
    };
    let Some(got) = got else {
        ctx.capped = Some("a fresh-process history could not be run".into());
        return;
    };
    for (k, (g, i)) in got.iter().zip(h.iter()).enumerate() {
        if g != &base[*i] {
            let prev = if k == 0 { "start".to_string() } else { CALL_NAMES[h[k - 1]].to_string() };
            ctx.violation(
                format!("C19 history {} after {}", CALL_NAMES[*i], prev),
                format!("call #{k} ({}) of history {:?} ({how}) returned {} ; made first in a pristine process it returns {}", CALL_NAMES[*i], h.iter().map(|i| CALL_NAMES[*i]).collect::<Vec<_>>(), clip(g), clip(&base[*i])),
                h.len(),
                || hist_json(h, how),
            );
            return;
        }
    }
    if got.len() != h.len() {
        ctx.violation("C19 history output-lines".into(), format!("history of {} calls produced {} result lines (extra output on stdout?)", h.len(), got.len()), h.len(), || hist_json(h, how));
    }
}

fn clip(s: &str) -> String {
    if s.len() > 400 {
        format!("{}…", &s[..400])
    } else {
        s.to_string()
    }
}

// ---------------------------------------------------------------------------------------------
// (c) loom

static SCHEDULES: AtomicU64 = AtomicU64::new(0);
static LOOM_MISMATCH: Mutex<Option<String>> = Mutex::new(None);

fn loom_group(group: &[usize], base: &[String], bound: usize) -> (u64, Option<String>) {
    SCHEDULES.store(0, Ordering::Relaxed);
    *LOOM_MISMATCH.lock().unwrap() = None;
    let mut b = loom::model::Builder::new();
    b.preemption_bound = Some(bound);
    b.max_branches = 100_000;
    let group: Vec<usize> = group.to_vec();
    let base: Vec<String> = base.to_vec();
    let res = guarded(move || {
        b.check(move || {
            SCHEDULES.fetch_add(1, Ordering::Relaxed);
            let seam = loom::sync::Arc::new(loom::sync::atomic::AtomicUsize::new(0));
            let mut hs = Vec::new();
            for &i in &group[1..] {
                let t = LoomTick(seam.clone());
                hs.push((i, loom::thread::spawn(move || call(i, &t))));
            }
            let first = call(group[0], &LoomTick(seam.clone()));
            let mut results = vec![(group[0], first)];
            for (i, h) in hs {
                results.push((i, h.join().unwrap()));
            }
            for (i, r) in results {
                if r != base[i] {
                    let mut m = LOOM_MISMATCH.lock().unwrap();
                    if m.is_none() {
                        *m = Some(format!("schedule #{}: {} returned {} ; sequentially it returns {}", SCHEDULES.load(Ordering::Relaxed), CALL_NAMES[i], clip(&r), clip(&base[i])));
                    }
                }
            }
        })
    });
    let n = SCHEDULES.load(Ordering::Relaxed);
    let mut mm = LOOM_MISMATCH.lock().unwrap().take();
    if let Err(p) = res {
        if mm.is_none() {
            mm = Some(format!("loom aborted the exploration at {}: {}", p.0, p.1));
        }
    }
    (n, mm)
}

// ---------------------------------------------------------------------------------------------

fn silence_sweep(ctx: &mut Ctx) {
    // decode every record-menu sequence up to 3, every AVP kind, render every error, encode the
    // list menu, hide and reveal — all of it must be silent (checked by the driver's fd monitor)
    let menu = gen::record_menu();
    let mut n = 0u64;
    let mut sink_str = 0usize;
    for a in 0..menu.len() {
        for b in 0..menu.len() {
            for c in 0..menu.len() {
                let mut body = gen::good_message_type();
                for r in [a, b, c] {
                    body.extend_from_slice(&menu[r].bytes);
                }
                let m = gen::control_message(&body);
                let _ = guarded(|| {
                    let mut r = rl2tp::common::SliceReader::from(&m[..]);
                    if let Err(es) = Message::<&[u8]>::try_read(&mut r) {
                        for e in es {
                            sink_str += e.to_string().len();
                        }
                    }
                    let mut r = rl2tp::common::SliceReader::from(&body[..]);
                    for x in AVP::try_read_greedy(&mut r) {
                        if let Err(e) = x {
                            sink_str += e.to_string().len();
                        }
                    }
                });
                n += 1;
            }
        }
    }
    for a in vgen::list_menu() {
        let c = bridge::avp_to_crate(&a).unwrap();
        let _ = guarded(|| {
            let mut w = rl2tp::common::VecWriter::new();
            c.write(&mut w);
            let mut r = rl2tp::common::SliceReader::from(&w.data[..]);
            let _ = AVP::try_read_greedy(&mut r);
            let h = c.clone().hide(b"s", &RandomVector::from([0; 4]), &[1, 2], &[0; 16]);
            let _ = h.clone().reveal(b"s", &RandomVector::from([0; 4]));
            let _ = h.reveal(b"t", &RandomVector::from([0; 4]));
        });
        n += 1;
    }
    for i in 0..N_CALLS {
        let _ = call(i, &NoTick);
        n += 1;
    }
    // render every error variant for every payload value (Display must be silent too)
    {
        use rl2tp::common::DecodeError as E;
        for x in 0..=0xffffu16 {
            let _ = guarded(|| {
                for e in [
                    E::IncompleteAVP(x),
                    E::UnknownMessageType(x),
                    E::InvalidUtf8(x),
                    E::InvalidResultCodeErrorType(x),
                    E::AVPReadError(x),
                    E::InvalidAVPLength(x),
                    E::UnknownAvp(x),
                    E::InvalidOriginalAVPLength(x),
                    E::UnsupportedVendorId(x),
                    E::InvalidOffset(x),
                    E::InvalidVersion(x as u8),
                ] {
                    sink_str += e.to_string().len() + format!("{e:?}").len();
                }
            });
            n += 11;
        }
        for e in [
            E::EmptyHiddenAVP,
            E::MisalignedHiddenAVP,
            E::InvalidReservedBits,
            E::IncompleteFlags,
            E::IncompleteDataMessageHeader,
            E::IncompleteDataMessagePayload,
            E::EmptyDataMessagePayload,
            E::MessageReadError,
            E::ForbiddenControlMessagePriority,
            E::ForbiddenControlMessageOffset,
            E::ControlMessageWithoutLength,
            E::ControlMessageWithoutNsNr,
            E::IncompleteControlMessageHeader,
            E::IncompleteControlMessagePayload,
            E::ControlMessageTypeNotFirst,
        ] {
            sink_str += e.to_string().len();
            n += 1;
        }
    }
    // every AVP kind through its own try_read at every payload length 0..=min+2, and reveal of
    // manufactured hidden values whose decrypted length is inconsistent
    for attr in spec::ALL_ATTRS {
        let min = spec::kind_of(attr).map(|k| spec::min_payload(k.0)).unwrap_or(0);
        for len in 0..=min + 2 {
            for class in [gen::Content::Valid, gen::Content::Ff, gen::Content::Overlong] {
                let p = gen::payload_for(attr, len, class);
                let _ = crate::run::decode_type(crate::run::ReaderKind::R2a, attr, &p, false);
                let rec = gen::avp_record(0x01, 0, attr, &p);
                let _ = crate::run::decode_avps(crate::run::ReaderKind::R2a, &rec, false);
                n += 2;
            }
        }
        for lo in [0u16, 5, 6, 7, 20, 21, 22, 23, 40, 1023, 1024, 0xffff] {
            let plain = [&lo.to_be_bytes()[..], &gen::payload_for(attr, 14, gen::Content::Valid)].concat();
            let value = spec::encrypt(attr, &plain, b"k", &[1, 2, 3, 4]);
            let h = AVP::Hidden(rl2tp::avp::types::Hidden { attribute_type: attr, value });
            let _ = guarded(|| h.reveal(b"k", &RandomVector::from([1, 2, 3, 4])).map(|a| format!("{a:?}")).map_err(|e| e.to_string()));
            n += 1;
        }
    }
    ctx.executions += n;
    ctx.states += n;
    ctx.transitions += n;
    ctx.guard("silence-sweep");
    ctx.tally("silence-sweep");
    let _ = sink_str;
}

fn result_hash(entry: Entry, bytes: &[u8]) -> u64 {
    // through the monitored reader: never an out-of-range access, whatever the tree does
    let s = match entry {
        Entry::Message => {
            let (r, obs) = crate::run::decode_msg(crate::run::ReaderKind::R2a, bytes, Some(spec::OPT_STRICT), false);
            format!("{r:?}{}", obs.remaining)
        }
        _ => {
            let (r, _) = crate::run::decode_avps(crate::run::ReaderKind::R2a, bytes, false);
            format!("{r:?}")
        }
    };
    fnv(s.as_bytes(), 1)
}

fn long_history(ctx: &mut Ctx) {
    let tier = ctx.tier;
    // pass 1: plain order
    let mut first: Vec<u64> = Vec::new();
    {
        let mut sink = |_ctx: &mut Ctx, wc: &WireCase| {
            if matches!(wc.entry, Entry::Type(_)) || wc.bytes.len() > 4096 {
                return;
            }
            first.push(result_hash(wc.entry, wc.bytes));
        };
        let (s0, t0, u0) = (ctx.states, ctx.transitions, ctx.unit);
        gen::w2(ctx, tier, &mut sink);
        gen::w3(ctx, tier, &mut sink);
        gen::w4(ctx, tier, &mut sink);
        gen::w5(ctx, tier, &mut sink);
        // the second pass walks the same tree: count it once
        ctx.states = s0 + (ctx.states - s0);
        ctx.transitions = t0 + (ctx.transitions - t0);
        let _ = u0;
    }
    // pass 2: a rotating disturbance call before every case
    let mut idx = 0usize;
    let mut mismatches: Vec<(usize, Vec<u8>, Entry)> = Vec::new();
    {
        let (s0, t0) = (ctx.states, ctx.transitions);
        let mut sink = |ctx: &mut Ctx, wc: &WireCase| {
            if matches!(wc.entry, Entry::Type(_)) || wc.bytes.len() > 4096 {
                return;
            }
            let d = [1usize, 5, 2, 6, 11, 0, 8, 4][idx % 8];
            let _ = call(d, &NoTick);
            let h = result_hash(wc.entry, wc.bytes);
            if first.get(idx) != Some(&h) && mismatches.len() < 4 {
                mismatches.push((d, wc.bytes.to_vec(), wc.entry));
            }
            if idx % 4 == 0 {
                ctx.note_nontrivial(fnv(wc.bytes, 19));
            }
            idx += 1;
        };
        gen::w2(ctx, tier, &mut sink);
        gen::w3(ctx, tier, &mut sink);
        gen::w4(ctx, tier, &mut sink);
        gen::w5(ctx, tier, &mut sink);
        ctx.states = s0;
        ctx.transitions = t0;
    }
    ctx.executions += 3 * idx as u64;
    if idx != first.len() {
        ctx.capped = Some("long history: the two passes enumerated different numbers of cases (harness nondeterminism)".into());
    }
    for (d, bytes, entry) in mismatches {
        ctx.violation(
            format!("C19 long-history result-depends-on-previous-call {}", CALL_NAMES[d]),
            format!("input {} gives a different result when the previous call was {} than in generator order", hex(&bytes[..bytes.len().min(64)]), CALL_NAMES[d]),
            bytes.len(),
            || json!({"kind":"long-history","disturbance":d,"entry": if entry == Entry::Message {"message"} else {"avps"},"hex":hex(&bytes)}),
        );
    }
    ctx.guard("long-history");
    ctx.tally("long-history");
}

fn run_c19(ctx: &mut Ctx) {
    let tier = ctx.tier;
    ctx.nontrivial_mod = 1;
    // baselines: each call made first in a pristine process
    let mut base: Vec<String> = Vec::new();
    for i in 0..N_CALLS {
        match fresh_process(&[i]) {
            Some(v) if v.len() == 1 => base.push(v[0].clone()),
            Some(v) => {
                // extra lines on stdout of the pristine process: the library printed something
                ctx.violation(
                    format!("C19 pristine-call-prints {}", CALL_NAMES[i]),
                    format!("a process that only makes call {} wrote {} lines to stdout; first: {}", CALL_NAMES[i], v.len(), clip(v.first().map(|s| s.as_str()).unwrap_or(""))),
                    1,
                    || hist_json(&[i], "fresh-process"),
                );
                base.push(v.last().cloned().unwrap_or_default());
            }
            None => {
                ctx.capped = Some("baseline process failed".into());
                return;
            }
        }
    }
    if ctx.shard == 0 {
        ctx.samples.push(json!({"kind":"baseline","call":CALL_NAMES[0],"result":clip(&base[0])}));
    }
    // (a)
    if ctx.shard == 0 {
        let desc = || json!({"kind":"silence-sweep"});
        ctx.case(&desc, silence_sweep);
    }
    // (b1) histories, in-process on this thread and on one reused worker thread
    let depth = if tier.thorough() { 4 } else { 3 };
    let fresh_depth = if tier.thorough() { 3 } else { 2 };
    let (tx, rx) = std::sync::mpsc::channel::<Vec<usize>>();
    let (rtx, rrx) = std::sync::mpsc::channel::<Vec<String>>();
    let worker = std::thread::spawn(move || {
        crate::ctx::install_panic_hook();
        while let Ok(h) = rx.recv() {
            let r: Vec<String> = h.iter().map(|i| call(*i, &NoTick)).collect();
            if rtx.send(r).is_err() {
                break;
            }
        }
    });
    for k in 1..=depth {
        let total = N_CALLS.pow(k as u32);
        for t in 0..total {
            if !ctx.mine() {
                continue;
            }
            let mut h = Vec::with_capacity(k);
            let mut x = t;
            for _ in 0..k {
                h.push(x % N_CALLS);
                x /= N_CALLS;
            }
            ctx.states += 1;
            ctx.transitions += 1;
            let h2 = h.clone();
            let desc = move || hist_json(&h2, "in-process");
            ctx.case(&desc, |ctx| {
                check_history(ctx, &h, &base, "in-process");
                // the same history on the reused worker thread (thread-locals survive there)
                if tx.send(h.clone()).is_ok() {
                    if let Ok(got) = rrx.recv() {
                        for (g, i) in got.iter().zip(h.iter()) {
                            if g != &base[*i] {
                                ctx.violation(
                                    format!("C19 history-on-reused-thread {}", CALL_NAMES[*i]),
                                    format!("history {:?} on a long-lived worker thread: {} returned {}", h.iter().map(|i| CALL_NAMES[*i]).collect::<Vec<_>>(), CALL_NAMES[*i], clip(g)),
                                    h.len(),
                                    || hist_json(&h, "worker-thread"),
                                );
                                break;
                            }
                        }
                    }
                }
                ctx.executions += 2 * h.len() as u64 - 1;
            });
            ctx.guard("histories");
            if k >= 2 {
                ctx.note_nontrivial(fnv(&h.iter().map(|x| *x as u8).collect::<Vec<_>>(), 191));
            }
            if k <= fresh_depth {
                let h3 = h.clone();
                let desc = move || hist_json(&h3, "fresh-process");
                ctx.case(&desc, |ctx| check_history(ctx, &h, &base, "fresh-process"));
                ctx.guard("histories-fresh-process");
            }
        }
    }
    drop(tx);
    let _ = worker.join();
    ctx.tally("histories");
    // (b2)
    long_history(ctx);
    // (c) loom: all unordered pairs
    let bound = if tier.thorough() { 3 } else { 2 };
    let mut groups: Vec<Vec<usize>> = Vec::new();
    for i in 0..N_CALLS {
        for j in i..N_CALLS {
            groups.push(vec![i, j]);
        }
    }
    if tier.thorough() {
        for t in [[0usize, 1, 5], [0, 6, 8], [1, 2, 5], [6, 7, 8], [0, 9, 10], [2, 2, 2], [5, 5, 6]] {
            groups.push(t.to_vec());
        }
    }
    let mut per_pair = serde_json::Map::new();
    let mut inconclusive: Vec<String> = Vec::new();
    for g in groups {
        if !ctx.mine() {
            continue;
        }
        let b = if g.len() == 3 { bound.min(2) } else { bound };
        let Some((n, mm)) = loom_group_subprocess(&g, b, if tier.thorough() { 120 } else { 30 }) else {
            inconclusive.push(g.iter().map(|i| CALL_NAMES[*i]).collect::<Vec<_>>().join(" || "));
            continue;
        };
        ctx.states += n;
        ctx.transitions += n;
        ctx.executions += n;
        ctx.nontrivial_direct += n;
        per_pair.insert(g.iter().map(|i| CALL_NAMES[*i]).collect::<Vec<_>>().join(" || "), json!(n));
        if ctx.samples.len() < 4 {
            ctx.samples.push(json!({"kind":"schedule-group","threads":g.iter().map(|i| CALL_NAMES[*i]).collect::<Vec<_>>(),"preemption_bound":b,"schedules_explored":n,"all_results_equal_sequential_baseline":mm.is_none()}));
        }
        ctx.guard("loom-pairs");
        if let Some(m) = mm {
            ctx.violation(
                format!("C19 schedule {}", g.iter().map(|i| CALL_NAMES[*i]).collect::<Vec<_>>().join("||")),
                format!("threads {:?}, preemption bound {b}: {m}", g.iter().map(|i| CALL_NAMES[*i]).collect::<Vec<_>>()),
                g.len(),
                || json!({"kind":"schedule","calls":g,"bound":b}),
            );
        }
    }
    ctx.extra.insert("loom_schedules_per_group".into(), Value::Object(per_pair));
    if !inconclusive.is_empty() {
        // loom did not finish these groups (most likely the library blocks on a real lock while
        // another coroutine holds it): no verdict from this engine for them; (c2), (b) and (d) remain
        let mut m = serde_json::Map::new();
        for g in inconclusive {
            m.insert(g, json!(1));
        }
        ctx.extra.insert("loom_groups_inconclusive".into(), Value::Object(m));
    }
    ctx.tally("loom");
    // (c2) instrumented-sync mode
    if ctx.shard == 1 % ctx.nshards {
        instrumented_sync(ctx, bound);
    }
    // (b3) fresh versus warmed
    if ctx.shard == 3 % ctx.nshards {
        let desc = || json!({"kind":"fresh-vs-warmed"});
        ctx.case(&desc, fresh_versus_warmed);
    }
    // (b4) rendering history
    if ctx.shard == 4 % ctx.nshards {
        let desc = || json!({"kind":"render-history"});
        ctx.case(&desc, render_history);
    }
    // (b5) refusals leave no state behind
    if ctx.shard == 5 % ctx.nshards {
        let desc = || json!({"kind":"refusal-history"});
        let b2 = base.clone();
        ctx.case(&desc, |ctx| refusal_history(ctx, &b2));
    }
    // (e) environment access: the library must not consult the process environment
    if ctx.shard == 2 % ctx.nshards {
        environment_access(ctx);
    }
    // (d) free-running complement
    if ctx.shard == 0 {
        let (n, bad) = free_running(&base, 1500);
        ctx.executions += n;
        if let Some(b) = bad {
            ctx.violation("C19 free-running-threads".into(), b, 16, || json!({"kind":"free-running"}));
        }
        ctx.guard("free-running");
    }
    ctx.samples.push(hist_json(&[1, 2, 0], "in-process"));
}

/// (b5) the loud refusals the properties allow (an oversize value, an overwrite outside the written
/// data, a message over 65 535 octets, hiding an oversize AVP) must leave nothing behind: after
/// each of them — made under `catch_unwind`, as a caller may — every call of the alphabet still
/// gives its pristine result (a poisoned lock, a scratch buffer left dirty by the unwinding, a
/// length left in a static would show).
fn refusal_history(ctx: &mut Ctx, base: &[String]) {
    use rl2tp::common::{VecWriter, Writer};
    let big = |n: usize| bridge::avp_to_crate(&SAvp::Plain { attr: 7, val: SVal::Bytes(ramp(n)) }).unwrap();
    let refusals: Vec<(&str, Box<dyn Fn() -> bool>)> = vec![
        ("hide-oversize", Box::new(move || guarded(|| big(1018).hide(b"secret", &RandomVector::from([1, 2, 3, 4]), &[], &[7u8; 16])).is_err())),
        ("hide-oversize-by-padding", Box::new(move || guarded(|| big(900).hide(b"secret", &RandomVector::from([1, 2, 3, 4]), &[0u8; 200], &[7u8; 16])).is_err())),
        ("write-oversize-avp", Box::new(move || {
            guarded(|| {
                let mut w = VecWriter::new();
                big(1018).write(&mut w);
            })
            .is_err()
        })),
        ("write-oversize-message", Box::new(move || {
            guarded(|| {
                let avps: Vec<SAvp> = std::iter::once(SAvp::Plain { attr: 0, val: SVal::MessageType(1) }).chain((0..65).map(|_| SAvp::Plain { attr: 7, val: SVal::Bytes(ramp(1017)) })).collect();
                let m = spec::SMessage::Control { length: 0, tid: 1, sid: 2, ns: 3, nr: 4, avps };
                let mut w = VecWriter::new();
                bridge::message_to_crate(&m).unwrap().write(&mut w);
            })
            .is_err()
        })),
        ("overwrite-outside", Box::new(move || {
            guarded(|| {
                let mut w = VecWriter::new();
                w.write_bytes(&[1, 2, 3]);
                w.write_bytes_at(&[9, 9], 2);
            })
            .is_err()
        })),
    ];
    let mut n = 0u64;
    for (name, f) in &refusals {
        let refused = f();
        ctx.tally(if refused { "refusal-made" } else { "refusal-not-refused (C07/C18 decide)" });
        for i in 0..N_CALLS {
            n += 1;
            let got = call(i, &NoTick);
            if got != base[i] {
                ctx.violation(
                    format!("C19 state-left-by-refusal {name} {}", CALL_NAMES[i]),
                    format!("after the refused call {name} (caught by the caller), call {} gives {} instead of its pristine result {}", CALL_NAMES[i], clip(&got), clip(&base[i])),
                    2,
                    || json!({"kind":"refusal-history"}),
                );
                ctx.executions += n;
                return;
            }
        }
    }
    ctx.states += n;
    ctx.transitions += n;
    ctx.executions += n;
    ctx.nontrivial_direct += n;
    ctx.guard("refusal-history");
}

/// (b4) rendering is a function of the error value: every u16-carrying error rendered for the
/// numbers 0..=4095 and a spread of larger ones, ascending; then the same renderings again in
/// descending order and once more ascending — each must equal its first rendering (a name cache
/// that goes stale after enough other numbers, or that is right only once, differs).
fn render_history(ctx: &mut Ctx) {
    use rl2tp::common::DecodeError as E;
    let numbers: Vec<u16> = (0..=4095u16).chain((4096..=0xffffu32).step_by(251).map(|x| x as u16)).chain([0xfffe, 0xffff]).collect();
    let make = |x: u16| -> Vec<E> {
        vec![
            E::IncompleteAVP(x),
            E::InvalidUtf8(x),
            E::AVPReadError(x),
            E::UnknownAvp(x),
            E::UnknownMessageType(x),
            E::InvalidResultCodeErrorType(x),
            E::InvalidAVPLength(x),
            E::InvalidOriginalAVPLength(x),
            E::UnsupportedVendorId(x),
            E::InvalidOffset(x),
        ]
    };
    let render = |x: u16| -> Option<u64> {
        let errs = make(x);
        guarded(move || errs.iter().map(|e| e.to_string()).collect::<Vec<_>>().join("\n")).ok().map(|s| fnv(s.as_bytes(), 4))
    };
    let first: Vec<Option<u64>> = numbers.iter().map(|x| render(*x)).collect();
    let mut n = numbers.len() as u64;
    for (pass, order) in [("descending", true), ("ascending", false)] {
        let idx: Vec<usize> = if order { (0..numbers.len()).rev().collect() } else { (0..numbers.len()).collect() };
        for i in idx {
            n += 1;
            let again = render(numbers[i]);
            if again != first[i] {
                let x = numbers[i];
                let now = guarded(|| make(x).iter().map(|e| e.to_string()).collect::<Vec<_>>().join(" | ")).unwrap_or_default();
                ctx.violation(
                    "C19 rendering-depends-on-history".into(),
                    format!("errors carrying {x} render differently in the {pass} pass than when first rendered in this process; now: {}", clip(&now)),
                    x as usize,
                    || json!({"kind":"render-history"}),
                );
                ctx.executions += n;
                return;
            }
        }
    }
    ctx.states += n;
    ctx.transitions += n;
    ctx.executions += n;
    ctx.nontrivial_direct += n;
    ctx.guard("render-history");
    ctx.extra.insert("render_history_renderings".into(), json!(n * 10));
}

/// (b3) representative decode cases: every attribute number x payload lengths around its minimum
/// x content classes as a bare record, the record menu, and the call alphabet's decode inputs
fn representative_cases() -> Vec<(Entry, Vec<u8>)> {
    let mut v: Vec<(Entry, Vec<u8>)> = Vec::new();
    for attr in gen::attr_alphabet() {
        let contents: &[gen::Content] = if gen::string_offset(attr).is_some() { &gen::STRING_CONTENT } else { &gen::BASIC_CONTENT };
        for plen in gen::payload_lengths(attr, crate::ctx::Tier::Quick) {
            if plen > 64 {
                continue;
            }
            for c in contents {
                v.push((Entry::AvpList, gen::avp_record(0x01, 0, attr, &gen::payload_for(attr, plen, *c))));
            }
        }
        // longer strings with the multi-octet scalar at the very end (tails of word-wise scans)
        if gen::string_offset(attr).is_some() {
            for plen in 9..=24 {
                for c in [gen::Content::U2, gen::Content::U3, gen::Content::Trunc, gen::Content::Overlong] {
                    v.push((Entry::AvpList, gen::avp_record(0x01, 0, attr, &gen::payload_for(attr, plen, c))));
                }
            }
        }
    }
    for r in gen::record_menu() {
        v.push((Entry::AvpList, r.bytes.clone()));
        v.push((Entry::Message, gen::control_message(&[gen::good_message_type(), r.bytes].concat())));
    }
    for (i, b) in inputs().into_iter().enumerate() {
        v.push((if i == 5 { Entry::AvpList } else { Entry::Message }, b));
    }
    v
}

/// every case decoded amid ordinary traffic (16 well-formed control messages with plain ASCII
/// names before each), so that anything adaptive sees a typical workload around it
fn digests_amid_ordinary_traffic(cases: &[(Entry, Vec<u8>)]) -> Vec<u64> {
    let ordinary: Vec<Vec<u8>> = (0..8)
        .map(|k| {
            let mut body = gen::good_message_type();
            body.extend_from_slice(&gen::avp_record(0x01, 0, 7, format!("lac-{k}.example.net").as_bytes()));
            body.extend_from_slice(&gen::avp_record(0x01, 0, 8, format!("Example Vendor {k}").as_bytes()));
            body.extend_from_slice(&gen::avp_record(0x01, 0, 21, format!("5550{k}00").as_bytes()));
            body.extend_from_slice(&gen::avp_record(0x01, 0, 9, &[0, k as u8 + 1]));
            gen::control_message(&body)
        })
        .collect();
    cases
        .iter()
        .enumerate()
        .map(|(i, c)| {
            for k in 0..16 {
                let _ = result_hash(Entry::Message, &ordinary[(i + k) % ordinary.len()]);
            }
            result_hash(c.0, &c.1)
        })
        .collect()
}

fn digests_of(cases: &[(Entry, Vec<u8>)], reverse: bool) -> Vec<u64> {
    let mut out = vec![0u64; cases.len()];
    let order: Vec<usize> = if reverse { (0..cases.len()).rev().collect() } else { (0..cases.len()).collect() };
    for i in order {
        out[i] = result_hash(cases[i].0, &cases[i].1);
    }
    out
}

/// `vh c19digest fwd|rev`: digests of the representative cases in a pristine process
pub fn digest_main(order: &str) -> i32 {
    crate::ctx::install_panic_hook();
    let cases = representative_cases();
    let d = if order == "amid" { digests_amid_ordinary_traffic(&cases) } else { digests_of(&cases, order == "rev") };
    println!("{}", d.iter().map(|x| format!("{x:016x}")).collect::<Vec<_>>().join(","));
    0
}

/// (b3) the representative cases decoded in this process, which by now has made millions of
/// calls, must give what two pristine processes give (decoding them in forward and in reverse
/// order): anything else means a result depends on how much, or what, was decoded before.
fn fresh_versus_warmed(ctx: &mut Ctx) {
    let cases = representative_cases();
    let warmed = digests_of(&cases, false);
    let Ok(exe) = std::env::current_exe() else { return };
    let fresh = |order: &str| -> Option<Vec<u64>> {
        let out = std::process::Command::new(&exe).arg("c19digest").arg(order).stdin(std::process::Stdio::null()).output().ok()?;
        let text = String::from_utf8_lossy(&out.stdout).to_string();
        let line = text.lines().last()?;
        let v: Vec<u64> = line.split(',').filter_map(|x| u64::from_str_radix(x.trim(), 16).ok()).collect();
        if v.len() == cases.len() {
            Some(v)
        } else {
            None
        }
    };
    let amid = digests_amid_ordinary_traffic(&cases);
    let _unused = 0;
    let ordinary: Vec<Vec<u8>> = (0..0)
        .map(|k| {
            let mut body = gen::good_message_type();
            body.extend_from_slice(&gen::avp_record(0x01, 0, 7, format!("lac-{k}.example.net").as_bytes()));
            body.extend_from_slice(&gen::avp_record(0x01, 0, 8, format!("Example Vendor {k}").as_bytes()));
            body.extend_from_slice(&gen::avp_record(0x01, 0, 21, format!("5550{k}00").as_bytes()));
            body.extend_from_slice(&gen::avp_record(0x01, 0, 9, &[0, k as u8 + 1]));
            gen::control_message(&body)
        })
        .collect();
    let _ = (&ordinary, _unused);
    let (Some(f), Some(r), Some(fa)) = (fresh("fwd"), fresh("rev"), fresh("amid")) else {
        ctx.capped = Some("fresh-process digests could not be obtained".into());
        return;
    };
    let mut reported = 0;
    for i in 0..cases.len() {
        if (warmed[i] != f[i] || f[i] != r[i] || amid[i] != f[i] || fa[i] != f[i]) && reported < 3 {
            reported += 1;
            let which = if f[i] != r[i] { "two pristine processes decoding the cases in different orders disagree" } else { "this long-running process disagrees with a pristine process" };
            let (entry, bytes) = (&cases[i].0, &cases[i].1);
            ctx.violation(
                format!("C19 fresh-versus-warmed {}", if f[i] != r[i] { "order-dependent" } else { "history-dependent" }),
                format!("input {}: {which}", hex(&bytes[..bytes.len().min(48)])),
                bytes.len(),
                || json!({"kind":"fresh-vs-warmed","index":i,"entry": if *entry == Entry::Message {"message"} else {"avps"},"hex":hex(bytes)}),
            );
        }
    }
    ctx.executions += 20 * cases.len() as u64;
    ctx.states += cases.len() as u64;
    ctx.transitions += cases.len() as u64;
    ctx.guard("fresh-versus-warmed");
    ctx.extra.insert("fresh_versus_warmed_cases".into(), json!(cases.len()));
}

/// (e) Run every call of the alphabet, and the whole silence sweep, each in a pristine process
/// under an LD_PRELOAD shim that logs getenv / clock / getrandom / getcwd / socket / open calls.
/// On the unchanged tree such a process touches none of these (measured), so anything logged
/// comes from the code under test: its result could depend on more than its arguments.
fn environment_access(ctx: &mut Ctx) {
    let shim = "/verif/harness/target/envshim.so";
    if !std::path::Path::new(shim).exists() {
        ctx.extra.insert("environment_access_monitor".into(), json!("unavailable: the LD_PRELOAD shim was not built (no C compiler?)"));
        return;
    }
    let Ok(exe) = std::env::current_exe() else { return };
    let mut runs = 0u64;
    let mut args: Vec<String> = (0..N_CALLS).map(|i| i.to_string()).collect();
    args.push((0..N_CALLS).map(|i| i.to_string()).collect::<Vec<_>>().join(","));
    if !cfg!(debug_assertions) {
        // the long sweep once (release profile): environment access does not depend on the profile
        args.push("sweep".into());
    }
    for a in args {
        let log = format!("/verif/scratch/c19-env-{}-{}.log", std::process::id(), runs);
        let _ = std::fs::remove_file(&log);
        let out = std::process::Command::new(&exe).arg("c19call").arg(&a).env("LD_PRELOAD", shim).env("VH_ENVLOG", &log).stdin(std::process::Stdio::null()).output();
        runs += 1;
        if out.is_err() {
            continue;
        }
        let text = std::fs::read_to_string(&log).unwrap_or_default();
        let _ = std::fs::remove_file(&log);
        let mut seen: std::collections::BTreeSet<String> = std::collections::BTreeSet::new();
        for line in text.lines() {
            // the Rust runtime may look at RUST_* variables (backtrace settings) when something panics
            if line.starts_with("getenv RUST_") {
                continue;
            }
            // the sweep process builds a harness context (a HashSet, hence one getrandom call)
            if a == "sweep" && line == "random getrandom" {
                continue;
            }
            seen.insert(line.to_string());
        }
        for what in seen {
            let kind = what.split(' ').next().unwrap_or("").to_string();
            ctx.violation(
                format!("C19 environment-access {}", if kind == "getenv" { what.clone() } else { kind }),
                format!("a process that only makes library calls ({}) touched the process environment: {what}", if a.len() < 12 { format!("call {a}") } else { a.clone() }),
                1,
                || json!({"kind":"environment","calls":a}),
            );
        }
    }
    ctx.executions += runs;
    ctx.states += runs;
    ctx.transitions += runs;
    ctx.guard("environment-monitor");
    ctx.extra.insert("environment_access_monitor".into(), json!({"processes": runs, "intercepted": ["getenv", "secure_getenv", "clock_gettime", "time", "gettimeofday", "getrandom", "getcwd", "socket", "open", "openat"]}));
}

/// 16 OS threads for `millis` ms: threads 0..8 only decode (alphabet calls), 8..12 run the whole
/// alphabet, 12..16 encode and decode ever-changing control messages checked against the reference
/// codec; every other result is compared with the sequential baseline. Not exhaustive: a complement for races that have no scheduling point
/// loom can see. A mismatch is a concrete wrong result of the real code, so reporting it is sound.
fn free_running(base: &[String], millis: u64) -> (u64, Option<String>) {
    let stop = std::sync::atomic::AtomicBool::new(false);
    let count = AtomicU64::new(0);
    let t0 = std::time::Instant::now();
    let bad: Vec<String> = std::thread::scope(|s| {
        let hs: Vec<_> = (0..16usize)
            .map(|t| {
                let (stop, count) = (&stop, &count);
                s.spawn(move || {
                    crate::ctx::install_panic_hook();
                    let mut bad = Vec::new();
                    let mut round = 0usize;
                    while !stop.load(Ordering::Relaxed) {
                        if t >= 12 {
                            // ever-changing values (caches, pools and interning tables only matter
                            // when many different values are in flight): encode and decode a
                            // control message whose contents depend on thread and iteration and
                            // compare with the reference codec
                            if let Some(b) = varied_roundtrip(t, round) {
                                bad.push(format!("thread {t}, iteration {round}: {b}"));
                                stop.store(true, Ordering::Relaxed);
                                break;
                            }
                            count.fetch_add(1, Ordering::Relaxed);
                            round += 1;
                            if round % 64 == 0 && t0.elapsed().as_millis() as u64 > millis {
                                stop.store(true, Ordering::Relaxed);
                            }
                            continue;
                        }
                        let c = if t < 8 { [0usize, 1, 2, 3, 5, 1, 0, 5][(round + t) % 8] } else { (round + t) % N_CALLS };
                        let r = call(c, &NoTick);
                        count.fetch_add(1, Ordering::Relaxed);
                        if r != base[c] {
                            bad.push(format!("thread {t}, iteration {round}: {} returned {} ; alone it returns {}", CALL_NAMES[c], clip(&r), clip(&base[c])));
                            stop.store(true, Ordering::Relaxed);
                            break;
                        }
                        round += 1;
                        if round % 64 == 0 && t0.elapsed().as_millis() as u64 > millis {
                            stop.store(true, Ordering::Relaxed);
                        }
                    }
                    bad
                })
            })
            .collect();
        hs.into_iter().flat_map(|h| h.join().unwrap_or_default()).collect()
    });
    (count.load(Ordering::Relaxed), bad.into_iter().next())
}

/// One encode + decode of a control message with 3..6 AVPs whose values depend on (t, round),
/// checked against the reference codec. Returns a description of the first disagreement.
fn varied_roundtrip(t: usize, round: usize) -> Option<String> {
    let x = (t as u64).wrapping_mul(0x9e3779b97f4a7c15) ^ (round as u64).wrapping_mul(0xbf58476d1ce4e5b9);
    let n = 3 + (x % 4) as usize;
    let mut avps = vec![SAvp::Plain { attr: 0, val: SVal::MessageType(spec::MESSAGE_TYPE_CODES[(x >> 8) as usize % 14]) }];
    for k in 0..n {
        let y = x.rotate_left(7 * k as u32 + 3);
        avps.push(match y % 5 {
            0 => SAvp::Plain { attr: 9, val: SVal::U16(y as u16) },
            1 => SAvp::Plain { attr: 7, val: SVal::Bytes(y.to_be_bytes()[..1 + (y >> 40) as usize % 8].to_vec()) },
            2 => SAvp::Plain { attr: 8, val: SVal::Str(format!("v{:x}", y & 0xffffff)) },
            3 => SAvp::Plain { attr: 15, val: SVal::U32(y as u32) },
            _ => SAvp::Plain { attr: 1, val: SVal::ResultCode { code: y as u16, error: Some(((y >> 20) as u16 % 9, Some(format!("e{}", y & 0xfff)))) } },
        });
    }
    let m = SMessage::Control { length: 0, tid: x as u16, sid: (x >> 16) as u16, ns: (x >> 32) as u16, nr: (x >> 48) as u16, avps };
    let mut want = Vec::new();
    spec::encode(&m, &mut want).ok()?;
    let c = bridge::message_to_crate(&m)?;
    let got = guarded(|| {
        let mut w = rl2tp::common::VecWriter::new();
        c.write(&mut w);
        w.data
    });
    match got {
        Ok(b) if b == want => (),
        Ok(b) => return Some(format!("encoding of a control message differs from the reference: {} vs {}", clip(&hex(&b)), clip(&hex(&want)))),
        Err(p) => return Some(format!("encode panicked at {}: {}", p.0, p.1)),
    }
    let (r, _) = crate::run::decode_msg(crate::run::ReaderKind::Slice, &want, Some(spec::OPT_STRICT), false);
    let expect = match spec::decode(&want, spec::OPT_STRICT).verdict {
        spec::Verdict::Accept(v) => v,
        _ => return None,
    };
    match r {
        Ok(Ok(v)) if v == expect => None,
        other => Some(format!("decoding {} gave {other:?}, reference {expect:?}", clip(&hex(&want)))),
    }
}

fn replay_c19(ctx: &mut Ctx, v: &Value) {
    let mut base: Vec<String> = Vec::new();
    for i in 0..N_CALLS {
        match fresh_process(&[i]) {
            Some(x) if !x.is_empty() => base.push(x.last().unwrap().clone()),
            _ => {
                eprintln!("machinery: baseline process failed");
                std::process::exit(2);
            }
        }
    }
    match v["kind"].as_str() {
        Some("history") => {
            let h: Vec<usize> = v["calls"].as_array().map(|a| a.iter().map(|x| x.as_u64().unwrap_or(0) as usize % N_CALLS).collect()).unwrap_or_default();
            let how = v["how"].as_str().unwrap_or("in-process").to_string();
            let how2 = if how == "worker-thread" { "in-process".to_string() } else { how };
            let h2 = h.clone();
            let hw = how2.clone();
            let desc = move || hist_json(&h2, &hw);
            ctx.case(&desc, |ctx| check_history(ctx, &h, &base, &how2));
        }
        Some("schedule") => {
            let g: Vec<usize> = v["calls"].as_array().map(|a| a.iter().map(|x| x.as_u64().unwrap_or(0) as usize % N_CALLS).collect()).unwrap_or_default();
            let b = v["bound"].as_u64().unwrap_or(2) as usize;
            let (n, mm) = loom_group(&g, &base, b);
            println!("  loom explored {n} schedules");
            if let Some(m) = mm {
                ctx.violation("C19 schedule replay".into(), m, g.len(), || v.clone());
            }
        }
        Some("long-history") => {
            let d = v["disturbance"].as_u64().unwrap_or(0) as usize % N_CALLS;
            let bytes = v["hex"].as_str().and_then(spec::unhex).unwrap_or_default();
            let entry = if v["entry"].as_str() == Some("message") { Entry::Message } else { Entry::AvpList };
            // pristine result of the decode: in a process that has made no other call yet this
            // replay process has only run baselines in subprocesses
            let plain = result_hash(entry, &bytes);
            let _ = call(d, &NoTick);
            let after = result_hash(entry, &bytes);
            if plain != after {
                ctx.violation("C19 long-history replay".into(), format!("result changes after call {}", CALL_NAMES[d]), bytes.len(), || v.clone());
            }
        }
        Some("schedule-sync") => {
            let bin = "/verif/harness/target/vh_sync/release/vh_sync";
            let inputs = format!("/verif/scratch/c19-sync-inputs-{}.json", std::process::id());
            let _ = std::fs::write(&inputs, sync_inputs_json());
            let p: Vec<String> = v["pair"].as_array().map(|a| a.iter().map(|x| x.as_u64().unwrap_or(0).to_string()).collect()).unwrap_or_default();
            let b = v["bound"].as_u64().unwrap_or(2).to_string();
            if p.len() >= 2 {
                let mut a = vec![inputs.clone(), b.clone(), "group".to_string()];
                a.extend(p.iter().cloned());
                if let Ok(out) = std::process::Command::new(bin).args(&a).output() {
                    let text = String::from_utf8_lossy(&out.stdout).to_string();
                    if let Some(r) = text.lines().rev().find_map(|l| serde_json::from_str::<Value>(l).ok()) {
                        println!("  instrumented-sync exploration: {} schedules", r["schedules"]);
                        if let Some(m) = r["mismatches"].as_array().and_then(|a| a.first()) {
                            ctx.violation("C19 schedule-instrumented-sync replay".into(), m["detail"].as_str().unwrap_or("").to_string(), 2, || v.clone());
                        }
                    }
                }
            }
            let _ = std::fs::remove_file(&inputs);
        }
        Some("refusal-history") => {
            let desc = || json!({"kind":"refusal-history"});
            let b2 = base.clone();
            ctx.case(&desc, |ctx| refusal_history(ctx, &b2));
        }
        Some("render-history") => {
            let desc = || json!({"kind":"render-history"});
            ctx.case(&desc, render_history);
        }
        Some("fresh-vs-warmed") => {
            // warm this process up with the wire sweep's long history first
            long_history(ctx);
            ctx.violations.clear();
            fresh_versus_warmed(ctx);
        }
        Some("environment") => {
            environment_access(ctx);
        }
        Some("free-running") => {
            // timing-dependent: try for up to 20 s
            for _ in 0..10 {
                let (n, bad) = free_running(&base, 2000);
                println!("  {n} concurrent calls");
                if let Some(b) = bad {
                    ctx.violation("C19 free-running-threads".into(), b, 16, || v.clone());
                    break;
                }
            }
        }
        Some("silence-sweep") => {
            // an abort / hang inside the sweep reproduces here (the process dies with it)
            let desc = || json!({"kind":"silence-sweep"});
            ctx.case(&desc, silence_sweep);
        }
        Some("fd") => {
            println!("  the silence check is an fd monitor of the worker process: re-run ./check C19 quick");
        }
        _ => {
            let _ = ramp(0);
        }
    }
}
