//! Property registry. One module per property (or per group sharing a sweep).

use crate::ctx::{Ctx, Tier};
use serde_json::Value;
use std::collections::BTreeMap;

pub mod c08;
pub mod c14;
pub mod c17;
pub mod c19;
pub mod errs;
pub mod hiding;
pub mod hist;
pub mod values;
pub mod wirecheck;

pub type Guards = BTreeMap<String, u64>;

#[derive(Clone)]
pub struct PropDef {
    pub id: &'static str,
    pub profiles: &'static [&'static str],
    pub shards: fn(Tier) -> u64,
    pub run: fn(&mut Ctx),
    pub replay: fn(&mut Ctx, &Value),
    /// vacuity guards: computed from generator and specification only (DESIGN §3.2)
    pub post: fn(Tier, &Guards, &Guards) -> Result<(), String>,
    pub rule: &'static str,
    pub bounds: fn(Tier) -> Value,
    pub assumptions: &'static [&'static str],
    /// stdout/stderr of the workers must stay empty and any octet is a violation (C19)
    pub fd_monitor: bool,
    pub mem_gb: fn(Tier) -> u64,
    pub watchdog_s: fn(Tier) -> u64,
    pub deadline_s: fn(Tier) -> Option<u64>,
}

pub fn sixteen(_: Tier) -> u64 {
    16
}
pub fn one(_: Tier) -> u64 {
    1
}
pub fn no_post(_: Tier, _: &Guards, _: &Guards) -> Result<(), String> {
    Ok(())
}
pub fn mem4(_: Tier) -> u64 {
    4
}
pub fn wd(_: Tier) -> u64 {
    10
}
pub fn no_deadline(_: Tier) -> Option<u64> {
    None
}

pub const BOTH: &[&str] = &["rel", "chk"];
pub const REL: &[&str] = &["rel"];

pub const COMMON_ASSUMPTIONS: &[&str] = &[
    "the reference specification in /verif/harness/src/spec is my reading of RFC 2661 plus the crate conventions listed in DESIGN.md §2.1; its MD5 is validated against RFC 1321 vectors and its encoder/decoder against each other at start-up",
    "copied payload contents are explored by class (distinct-octet ramp, 00, ff, ASCII, UTF-8 boundary classes), not all 2^(8n) strings; structure is bounded as stated in coverage.bounds",
    "rustc/std behave as documented; both build profiles (release, and release + debug-assertions + overflow-checks) are executed",
];

pub fn all() -> Vec<PropDef> {
    let mut v = Vec::new();
    v.extend(wirecheck::defs());
    v.extend(c08::defs());
    v.extend(c14::defs());
    v.extend(errs::defs());
    v.extend(hiding::defs());
    v.extend(c17::defs());
    v.extend(hist::defs());
    v.extend(c19::defs());
    v.extend(values::defs());
    v
}

pub fn find(id: &str) -> Option<PropDef> {
    all().into_iter().find(|p| p.id == id)
}
