//! C01 (totality), C02 (reader contract, reader independence) and C05 (agreement with the
//! specification) over the wire space W0–W6.

use super::*;
use crate::ctx::{fnv, panic_class, Ctx, Tier};
use crate::gen::{self, Entry, WireCase};
use crate::monitor::Mon;
use crate::run::{self, AvpsOut, MsgOut, Observed, Panic, ReaderKind};
use crate::spec::{self, hex, unhex, AvpRej, Rej, SAvp, SMessage, Verdict};
use rl2tp::common::DecodeError;
use serde_json::{json, Value};

pub fn defs() -> Vec<PropDef> {
    vec![
        PropDef {
            id: "C01",
            profiles: BOTH,
            shards: sixteen,
            run: |c| run_wire(c, Which::C01),
            replay: |c, v| replay_wire(c, v, Which::C01),
            post: post_wire,
            rule: "ENUM product/deviation-bounded enumeration of the wire space W0-W6 (DESIGN §4.1); every case is decoded through the monitored reader and, when that is memory-safe, through SliceReader, under every option set listed in bounds. Non-trivial: the decoder got past the flag word, version and reserved-bit checks (result is Ok or an error other than IncompleteFlags/InvalidVersion/InvalidReservedBits), or for bare AVP lists at least one 6-octet header was available.",
            bounds: wire_bounds,
            assumptions: COMMON_ASSUMPTIONS,
            fd_monitor: false,
            mem_gb: mem4,
            watchdog_s: wd,
            deadline_s: no_deadline,
        },
        PropDef {
            id: "C02",
            profiles: BOTH,
            shards: sixteen,
            run: |c| run_wire(c, Which::C02),
            replay: |c, v| replay_wire(c, v, Which::C02),
            post: post_wire,
            rule: "ENUM enumeration of the wire space W0-W6 and of the reveal space (C13's: every value of the decrypted original-length field x attribute types x block counts, where the observer is the panic/abort of reveal's internal SliceReader); every wire case is decoded through five contract-checking implementations (slice-backed, owning with buffers wiped on release, position shared behind an Rc) of the public Reader trait (slice-backed and owning, each with both behaviours for a bytes() overrun) and through SliceReader; every request is checked against the remaining length and results are compared across readers. Non-trivial: at least one unchecked read / skip / sub-range request was issued beyond the flag word.",
            bounds: wire_bounds,
            assumptions: COMMON_ASSUMPTIONS,
            fd_monitor: false,
            mem_gb: mem4,
            watchdog_s: wd,
            deadline_s: no_deadline,
        },
        PropDef {
            id: "C05",
            profiles: BOTH,
            shards: sixteen,
            run: |c| run_wire(c, Which::C05),
            replay: |c, v| replay_wire(c, v, Which::C05),
            post: post_wire,
            rule: "ENUM enumeration of the wire space W0-W6; every case is decoded by the implementation and by the independent reference decoder and compared (accept/reject, values field by field, AVP lists element-wise). Non-trivial: the specification's verdict is past the flag word / version / reserved checks (messages) or the input holds at least one AVP header (bare lists).",
            bounds: wire_bounds,
            assumptions: COMMON_ASSUMPTIONS,
            fd_monitor: false,
            mem_gb: mem4,
            watchdog_s: wd,
            deadline_s: no_deadline,
        },
    ]
}

#[derive(Clone, Copy, PartialEq, Eq, Debug)]
pub enum Which {
    C01,
    C02,
    C05,
}

pub fn wire_bounds(tier: Tier) -> Value {
    json!({
        "W0_raw_strings_up_to_octets": if tier.thorough() { 3 } else { 2 },
        "W1_flag_words": 65536,
        "W2_control_header": {"flag_alphabet": gen::flag_alphabet().len(), "length_choices": 12, "id_deviations": if tier.thorough() {2} else {1}, "truncation": "every point"},
        "W3_single_record": {"attribute_numbers": gen::attr_alphabet().len(), "soft_deviation_bound": if tier.thorough() {"none (full product)"} else {"3"}, "first_two_octets_complete": tier.thorough()},
        "W4_record_sequences": {"menu": gen::record_menu().len(), "max_len": if tier.thorough() {5} else {4}},
        "W5_data_messages": "16 LSOP subsets x 6 version/reserved variants x 10 Length x 7 offset-size x 4 payloads x 3 suffixes x every truncation point",
        "W6_size_extremes": "65535-octet control message, 10900 six-octet AVPs, 66 KiB bare AVP region, 65535/70000-octet data messages",
        "option_sets": "all 8 + try_read for header-level families; {strict, none, try_read} for body-level families in quick, all 9 in thorough",
    })
}

pub fn opts_for(body_level: bool, tier: Tier) -> &'static [Option<u8>] {
    const ALL: [Option<u8>; 9] = [Some(7), Some(0), None, Some(1), Some(2), Some(3), Some(4), Some(5), Some(6)];
    if body_level && !tier.thorough() {
        &ALL[..3]
    } else {
        &ALL
    }
}

pub fn eff_opts(o: Option<u8>) -> u8 {
    o.unwrap_or(spec::OPT_DEFAULT)
}

fn entry_str(e: Entry) -> String {
    match e {
        Entry::Message => "message".into(),
        Entry::AvpList => "avps".into(),
        Entry::Type(a) => format!("type:{a}"),
    }
}

fn entry_from(s: &str) -> Option<Entry> {
    Some(match s {
        "message" => Entry::Message,
        "avps" => Entry::AvpList,
        x => Entry::Type(x.strip_prefix("type:")?.parse().ok()?),
    })
}

thread_local! {
    /// (first, previous) wire case executed by this worker: stored with every violation so that a
    /// result that depends on earlier calls can be replayed and reported as a verdict
    static WIRE_HISTORY: std::cell::RefCell<(Option<(Entry, Option<u8>, Vec<u8>)>, Option<(Entry, Option<u8>, Vec<u8>)>)> = const { std::cell::RefCell::new((None, None)) };
    /// the last case that a property marked as having done something beyond decoding (C10: the
    /// last accepted input, i.e. the last one whose value was re-encoded)
    static WIRE_MARKED: std::cell::RefCell<Option<(Entry, Option<u8>, Vec<u8>)>> = const { std::cell::RefCell::new(None) };
}

pub fn mark_wire(entry: Entry, opts: Option<u8>, bytes: &[u8]) {
    if bytes.len() <= 4096 {
        WIRE_MARKED.with(|m| *m.borrow_mut() = Some((entry, opts, bytes.to_vec())));
    }
}

/// remember the case just executed (called once per case by the wire-based sweeps)
pub fn remember_wire(entry: Entry, opts: Option<u8>, bytes: &[u8]) {
    WIRE_HISTORY.with(|h| {
        let mut h = h.borrow_mut();
        if h.0.is_none() {
            h.0 = Some((entry, opts, bytes.to_vec()));
        }
        match &mut h.1 {
            Some(p) => {
                p.0 = entry;
                p.1 = opts;
                p.2.clear();
                p.2.extend_from_slice(bytes);
            }
            None => h.1 = Some((entry, opts, bytes.to_vec())),
        }
    });
}

fn wire_json_plain(entry: Entry, opts: Option<u8>, bytes: &[u8]) -> Value {
    json!({"kind":"wire","entry":entry_str(entry),"opts":opts,"len":bytes.len(),"hex":hex(bytes)})
}

pub fn wire_json(entry: Entry, opts: Option<u8>, bytes: &[u8]) -> Value {
    let mut v = wire_json_plain(entry, opts, bytes);
    WIRE_HISTORY.with(|h| {
        let h = h.borrow();
        if let Some(f) = &h.0 {
            if f.2.len() <= 4096 {
                v["first_call"] = wire_json_plain(f.0, f.1, &f.2);
            }
        }
        if let Some(p) = &h.1 {
            if p.2.len() <= 4096 {
                v["previous_call"] = wire_json_plain(p.0, p.1, &p.2);
            }
        }
    });
    WIRE_MARKED.with(|m| {
        if let Some(p) = m.borrow().as_ref() {
            v["last_marked_call"] = wire_json_plain(p.0, p.1, &p.2);
        }
    });
    v
}

/// the recorded earlier calls of a replay case, in order
pub fn wire_history_of(v: &Value) -> Vec<(Entry, Option<u8>, Vec<u8>)> {
    let mut out = Vec::new();
    for key in ["first_call", "last_marked_call", "previous_call"] {
        if let Some(c) = v.get(key) {
            if let (Some(e), Some(b)) = (c["entry"].as_str().and_then(entry_from), c["hex"].as_str().and_then(unhex)) {
                out.push((e, c["opts"].as_u64().map(|x| x as u8), b));
            }
        }
    }
    out
}

fn first_err_name(e: &[DecodeError]) -> String {
    match e.first() {
        Some(x) => {
            let s = format!("{x:?}");
            s.split('(').next().unwrap_or("").to_string()
        }
        None => "EMPTY".into(),
    }
}

fn is_header_reject(e: &[DecodeError]) -> bool {
    matches!(
        e.first(),
        Some(DecodeError::IncompleteFlags) | Some(DecodeError::InvalidVersion(_)) | Some(DecodeError::InvalidReservedBits)
    )
}

/// May SliceReader be run on this input without undefined behaviour? It may unless the
/// monitored run saw an out-of-contract *unchecked read* first (sub-range and skip requests
/// beyond the end panic safely in SliceReader).
fn slice_safe(mon: &Mon) -> bool {
    match mon.violations.first() {
        None => true,
        Some(v) => v.method == "subreader" || v.method == "skip_bytes",
    }
}

fn rej_class(r: &Rej) -> &'static str {
    match r {
        Rej::IncompleteFlags => "rej-IncompleteFlags",
        Rej::Version(_) => "rej-Version",
        Rej::Reserved => "rej-Reserved",
        Rej::CtlPriority => "rej-CtlPriority",
        Rej::CtlOffset => "rej-CtlOffset",
        Rej::CtlNoLength => "rej-CtlNoLength",
        Rej::CtlNoNsNr => "rej-CtlNoNsNr",
        Rej::CtlHeaderShort => "rej-CtlHeaderShort",
        Rej::CtlLengthBelowHeader(_) => "rej-CtlLengthBelowHeader",
        Rej::CtlLengthBeyondInput(_) => "rej-CtlLengthBeyondInput",
        Rej::CtlFirstNotMessageType => "rej-CtlFirstNotMessageType",
        Rej::Avps(_) => "rej-Avps",
        Rej::DataHeaderShort => "rej-DataHeaderShort",
        Rej::DataOffset(_) => "rej-DataOffset",
        Rej::DataLengthBelowHeader(_) => "rej-DataLengthBelowHeader",
        Rej::DataLengthBeyondInput(_) => "rej-DataLengthBeyondInput",
        Rej::DataEmpty => "rej-DataEmpty",
    }
}

pub const ALL_REJ_CLASSES: [&str; 17] = [
    "rej-IncompleteFlags",
    "rej-Version",
    "rej-Reserved",
    "rej-CtlPriority",
    "rej-CtlOffset",
    "rej-CtlNoLength",
    "rej-CtlNoNsNr",
    "rej-CtlHeaderShort",
    "rej-CtlLengthBelowHeader",
    "rej-CtlLengthBeyondInput",
    "rej-CtlFirstNotMessageType",
    "rej-Avps",
    "rej-DataHeaderShort",
    "rej-DataOffset",
    "rej-DataLengthBelowHeader",
    "rej-DataLengthBeyondInput",
    "rej-DataEmpty",
];

fn avp_rej_class(r: &AvpRej) -> &'static str {
    match r {
        AvpRej::BadLength(_) => "avprej-BadLength",
        AvpRej::Vendor(_) => "avprej-Vendor",
        AvpRej::Unknown(_) => "avprej-Unknown",
        AvpRej::Incomplete(_) => "avprej-Incomplete",
        AvpRej::BadMessageType(_) => "avprej-BadMessageType",
        AvpRej::BadErrorType(_) => "avprej-BadErrorType",
        AvpRej::BadProxyAuthenType(_) => "avprej-BadProxyAuthenType",
        AvpRej::Utf8(_) => "avprej-Utf8",
    }
}

pub const ALL_AVP_REJ_CLASSES: [&str; 8] = [
    "avprej-BadLength",
    "avprej-Vendor",
    "avprej-Unknown",
    "avprej-Incomplete",
    "avprej-BadMessageType",
    "avprej-BadErrorType",
    "avprej-BadProxyAuthenType",
    "avprej-Utf8",
];

thread_local! {
    static KIND_GUARDS: Vec<String> = (0..40u16).map(|a| format!("kind-accepted-{a}")).collect();
}

fn note_spec_avps(ctx: &mut Ctx, items: &[spec::AvpItem]) {
    for it in items {
        match &it.res {
            Ok(SAvp::Hidden { .. }) => ctx.guard("kind-accepted-hidden"),
            Ok(SAvp::Plain { attr, .. }) => {
                let a = *attr as usize;
                KIND_GUARDS.with(|g| ctx.guard(&g[a]));
            }
            Err(r) => ctx.guard(avp_rej_class(r)),
        }
    }
}

pub fn post_wire(_tier: Tier, guards: &Guards, _hist: &Guards) -> Result<(), String> {
    // computed from generator + specification only: every AVP kind accepted at least once,
    // every reject class generated at least once
    for a in spec::ALL_ATTRS {
        if !guards.contains_key(&format!("kind-accepted-{a}")) {
            return Err(format!("no generated input was accepted by the specification as AVP kind {a}"));
        }
    }
    if !guards.contains_key("kind-accepted-hidden") {
        return Err("no hidden AVP generated".into());
    }
    for c in ALL_REJ_CLASSES.iter().chain(ALL_AVP_REJ_CLASSES.iter()) {
        if !guards.contains_key(*c) {
            return Err(format!("reject class {c} never generated"));
        }
    }
    for g in ["spec-accept-control", "spec-accept-data", "ctl-length-11", "ctl-length-12", "ctl-length-13", "avp-length-5", "avp-length-6", "avp-length-7"] {
        if !guards.contains_key(g) {
            return Err(format!("boundary {g} never generated"));
        }
    }
    Ok(())
}

fn spec_guards_message(ctx: &mut Ctx, bytes: &[u8], d: &spec::Decoded) {
    match &d.verdict {
        Verdict::Accept(SMessage::Control { .. }) => ctx.guard("spec-accept-control"),
        Verdict::Accept(SMessage::Data { .. }) => ctx.guard("spec-accept-data"),
        Verdict::Unspecified(_) => ctx.guard("spec-unspecified"),
        Verdict::Reject(r) => ctx.guard(rej_class(r)),
    }
    if bytes.len() >= 12 && bytes[0] & 0x01 != 0 {
        let l = ((bytes[2] as u16) << 8) | bytes[3] as u16;
        match l {
            11 => ctx.guard("ctl-length-11"),
            12 => ctx.guard("ctl-length-12"),
            13 => ctx.guard("ctl-length-13"),
            _ => (),
        }
        let l = l as usize;
        if l >= 12 && l <= bytes.len() {
            let (items, _) = spec::decode_avps(&bytes[12..l]);
            note_spec_avps(ctx, &items);
        }
    }
}

fn spec_guards_avps(ctx: &mut Ctx, bytes: &[u8], items: &[spec::AvpItem]) {
    note_spec_avps(ctx, items);
    if bytes.len() >= 6 {
        let l = (((bytes[0] >> 6) as u16) << 8) | bytes[1] as u16;
        match l {
            5 => ctx.guard("avp-length-5"),
            6 => ctx.guard("avp-length-6"),
            7 => ctx.guard("avp-length-7"),
            _ => (),
        }
    }
}

// ---------------------------------------------------------------------------------------------

fn run_wire(ctx: &mut Ctx, which: Which) {
    let tier = ctx.tier;
    ctx.nontrivial_mod = if tier.thorough() { 64 } else { 4 };
    let mut sink = |ctx: &mut Ctx, wc: &WireCase| {
        let opts_list: &[Option<u8>] = match wc.entry {
            Entry::Message => opts_for(wc.body_level, tier),
            _ => &[None],
        };
        for &opts in opts_list {
            let (entry, bytes, family) = (wc.entry, wc.bytes, wc.family);
            let desc = || wire_json(entry, opts, bytes);
            ctx.case(&desc, |ctx| check_one(ctx, which, family, entry, opts, bytes));
            remember_wire(entry, opts, bytes);
        }
    };
    gen::wire(ctx, tier, &mut sink);
    if which == Which::C02 {
        // reveal builds its own SliceReader over the decrypted octets: the reveal space (every
        // value of the decrypted length field, every attribute type) is part of C02's quantifier
        super::hiding::run_reveal(ctx);
    }
}

fn replay_wire(ctx: &mut Ctx, v: &Value, which: Which) {
    if v["kind"].as_str() == Some("reveal") {
        return super::hiding::replay_reveal(ctx, v);
    }
    let entry = v["entry"].as_str().and_then(entry_from);
    let bytes = v["hex"].as_str().and_then(unhex);
    let (Some(entry), Some(bytes)) = (entry, bytes) else {
        eprintln!("machinery: replay case is not a wire case: {v}");
        std::process::exit(2);
    };
    let opts = v["opts"].as_u64().map(|x| x as u8);
    // earlier calls of the sweep first (state they leave behind is part of what is replayed)
    for (e, o, b) in wire_history_of(v) {
        let mut scratch = Ctx::new(&ctx.prop, ctx.tier, 0, 1);
        check_one(&mut scratch, which, "replay-history", e, o, &b);
    }
    let desc = || wire_json_plain(entry, opts, &bytes);
    ctx.case(&desc, |ctx| check_one(ctx, which, "replay", entry, opts, &bytes));
    for (k, n) in &ctx.hist {
        println!("  outcome {k} x{n}");
    }
}

/// vacuity-guard bookkeeping from generator + specification only
fn spec_guards(ctx: &mut Ctx, entry: Entry, opts: Option<u8>, bytes: &[u8]) {
    match entry {
        Entry::Message => {
            let d = spec::decode(bytes, eff_opts(opts));
            spec_guards_message(ctx, bytes, &d);
        }
        Entry::AvpList => {
            let (items, _) = spec::decode_avps(bytes);
            spec_guards_avps(ctx, bytes, &items);
        }
        Entry::Type(_) => (),
    }
}

fn check_one(ctx: &mut Ctx, which: Which, family: &'static str, entry: Entry, opts: Option<u8>, bytes: &[u8]) {
    if which != Which::C05 {
        spec_guards(ctx, entry, opts, bytes);
    }
    match which {
        Which::C01 => c01(ctx, family, entry, opts, bytes),
        Which::C02 => c02(ctx, family, entry, opts, bytes),
        Which::C05 => c05(ctx, family, entry, opts, bytes),
    }
}

fn case_hash(entry: Entry, opts: Option<u8>, bytes: &[u8]) -> u64 {
    let tag = match entry {
        Entry::Message => 1u64,
        Entry::AvpList => 2,
        Entry::Type(a) => 1000 + a as u64,
    };
    fnv(bytes, tag * 16 + opts.map(|o| o as u64 + 1).unwrap_or(0))
}

/// Outcome of one entry point on one reader, reduced to what the properties compare.
#[derive(Debug, PartialEq)]
pub enum Out {
    Msg(MsgOut),
    Avps(AvpsOut),
    Type(Option<Result<SAvp, DecodeError>>),
}

pub fn decode_entry(kind: ReaderKind, entry: Entry, opts: Option<u8>, bytes: &[u8], sites: bool) -> (Result<Out, Panic>, Observed) {
    match entry {
        Entry::Message => {
            let (r, o) = run::decode_msg(kind, bytes, opts, sites);
            (r.map(Out::Msg), o)
        }
        Entry::AvpList => {
            let (r, o) = run::decode_avps(kind, bytes, sites);
            (r.map(Out::Avps), o)
        }
        Entry::Type(a) => {
            let (r, o) = run::decode_type(kind, a, bytes, sites);
            (r.map(Out::Type), o)
        }
    }
}

fn out_class(o: &Out) -> String {
    match o {
        Out::Msg(Ok(SMessage::Control { .. })) => "ok-control".into(),
        Out::Msg(Ok(SMessage::Data { .. })) => "ok-data".into(),
        Out::Msg(Err(e)) => format!("err-{}", first_err_name(e)),
        Out::Avps(v) => {
            let n_ok = v.iter().filter(|x| x.is_ok()).count();
            let n_err = v.len() - n_ok;
            format!("avps-ok{}-err{}", n_ok.min(3), n_err.min(3))
        }
        Out::Type(None) => "type-none".into(),
        Out::Type(Some(Ok(_))) => "type-ok".into(),
        Out::Type(Some(Err(e))) => format!("type-err-{}", first_err_name(std::slice::from_ref(e))),
    }
}

fn report_panic(ctx: &mut Ctx, prop: &str, p: &Panic, entry: Entry, opts: Option<u8>, bytes: &[u8], reader: &str) {
    let sig = format!("{prop} panic {} {}", p.0, panic_class(&p.1));
    ctx.tally("panic");
    ctx.violation(
        sig,
        format!("decoding through {reader} panicked at {}: {}", p.0, p.1),
        bytes.len(),
        || wire_json(entry, opts, bytes),
    );
}

fn report_contract(ctx: &mut Ctx, prop: &str, mon: &Mon, entry: Entry, opts: Option<u8>, bytes: &[u8]) {
    let v = &mon.violations[0];
    let sig = format!("{prop} out-of-contract {} {}", v.site, v.method);
    ctx.tally("out-of-contract");
    ctx.violation(
        sig,
        format!(
            "{} requested {} octets at {} with {} remaining (out of contract: undefined behaviour, abort or panic with SliceReader)",
            v.method, v.requested, v.site, v.remaining
        ),
        bytes.len(),
        || wire_json(entry, opts, bytes),
    );
}

fn c01(ctx: &mut Ctx, _family: &'static str, entry: Entry, opts: Option<u8>, bytes: &[u8]) {
    let (r, obs) = decode_entry(ReaderKind::R2a, entry, opts, bytes, false);
    let mon = obs.mon.as_ref().unwrap();
    let mut nontrivial = false;
    if let Err(p) = &r {
        report_panic(ctx, "C01", p, entry, opts, bytes, "the monitored reader");
        return;
    }
    if !mon.violations.is_empty() {
        if !slice_safe(mon) {
            report_contract(ctx, "C01", mon, entry, opts, bytes);
            return;
        }
    }
    let (rs, _) = decode_entry(ReaderKind::Slice, entry, opts, bytes, false);
    match rs {
        Err(p) => {
            report_panic(ctx, "C01", &p, entry, opts, bytes, "SliceReader");
            return;
        }
        Ok(out) => {
            match &out {
                Out::Msg(Err(e)) => {
                    if e.is_empty() {
                        ctx.violation("C01 empty-error-list".into(), "Err with an empty list of decode errors".into(), bytes.len(), || {
                            wire_json(entry, opts, bytes)
                        });
                    }
                    nontrivial = !is_header_reject(e);
                }
                Out::Msg(Ok(_)) => nontrivial = true,
                Out::Avps(v) => {
                    if v.len() > bytes.len() / 6 + 1 {
                        ctx.violation(
                            "C01 avp-list-longer-than-input".into(),
                            format!("{} results from {} octets", v.len(), bytes.len()),
                            bytes.len(),
                            || wire_json(entry, opts, bytes),
                        );
                    }
                    nontrivial = bytes.len() >= 6;
                }
                Out::Type(_) => nontrivial = !bytes.is_empty(),
            }
            let cls = out_class(&out);
            ctx.tally(&cls);
        }
    }
    if !mon.violations.is_empty() {
        // sub-range / skip beyond the end that SliceReader survived without panicking cannot
        // happen (it slices), but keep the report if it ever does
        report_contract(ctx, "C01", mon, entry, opts, bytes);
    }
    if nontrivial {
        ctx.note_nontrivial(case_hash(entry, opts, bytes));
    }
    ctx.sample(|| wire_json(entry, opts, bytes));
}

fn c02(ctx: &mut Ctx, _family: &'static str, entry: Entry, opts: Option<u8>, bytes: &[u8]) {
    let mut outs: Vec<(ReaderKind, Result<Out, Panic>, Observed)> = Vec::with_capacity(5);
    for k in run::MONITORED {
        let (r, o) = decode_entry(k, entry, opts, bytes, false);
        outs.push((k, r, o));
    }
    let mut safe = true;
    let mut calls = 0;
    for (_, r, o) in &outs {
        let mon = o.mon.as_ref().unwrap();
        calls = calls.max(mon.calls);
        if !mon.violations.is_empty() {
            report_contract(ctx, "C02", mon, entry, opts, bytes);
            safe = safe && slice_safe(mon);
            // the run after an out-of-contract answer is meaningless: stop here
            return;
        }
        if let Err(p) = r {
            // a panic with no contract violation (e.g. arithmetic overflow): C01's finding;
            // nothing can be compared for this case
            ctx.tally("panic-no-contract-violation");
            let _ = p;
            return;
        }
    }
    if safe {
        let (r, o) = decode_entry(ReaderKind::Slice, entry, opts, bytes, false);
        if r.is_err() {
            ctx.tally("slice-panic");
            return;
        }
        outs.push((ReaderKind::Slice, r, o));
    }
    let (k0, r0, o0) = &outs[0];
    let base = r0.as_ref().unwrap();
    for (k, r, o) in &outs[1..] {
        let out = r.as_ref().unwrap();
        let same_overrun_mode = matches!((k0, k), (ReaderKind::R2a, ReaderKind::R3a) | (ReaderKind::R2a, ReaderKind::Slice) | (ReaderKind::R2a, ReaderKind::R4));
        let accepted = matches!(base, Out::Msg(Ok(_)));
        if out != base || ((same_overrun_mode || accepted) && o.remaining != o0.remaining) {
            let sig = format!("C02 reader-divergence {} {:?}-vs-{:?}", entry_str(entry), k0, k);
            ctx.violation(
                sig,
                format!(
                    "{:?} gave {} (remaining {}), {:?} gave {} (remaining {})",
                    k0,
                    out_class(base),
                    o0.remaining,
                    k,
                    out_class(out),
                    o.remaining
                ),
                bytes.len(),
                || wire_json(entry, opts, bytes),
            );
        }
    }
    ctx.tally(&out_class(base));
    let min_calls = if entry == Entry::Message { 2 } else { 1 };
    if calls >= min_calls {
        ctx.note_nontrivial(case_hash(entry, opts, bytes));
    }
    ctx.sample(|| wire_json(entry, opts, bytes));
}

fn avps_agree(imp: &AvpsOut, items: &[spec::AvpItem]) -> Result<(), String> {
    if imp.len() != items.len() {
        return Err(format!("list length {} vs specified {}", imp.len(), items.len()));
    }
    for (i, (a, b)) in imp.iter().zip(items.iter()).enumerate() {
        match (a, &b.res) {
            (Ok(x), Ok(y)) => {
                if x != y {
                    return Err(format!("element {i}: value {x:?} vs specified {y:?}"));
                }
            }
            (Err(_), Err(_)) => (),
            (Ok(x), Err(r)) => return Err(format!("element {i}: accepted as {x:?}, specification rejects ({r:?})")),
            (Err(e), Ok(y)) => return Err(format!("element {i}: rejected with {e:?}, specification accepts {y:?}")),
        }
    }
    Ok(())
}

fn c05(ctx: &mut Ctx, _family: &'static str, entry: Entry, opts: Option<u8>, bytes: &[u8]) {
    // monitored run first: it tells whether SliceReader can be run without undefined behaviour
    let (rm, obs) = decode_entry(ReaderKind::R2a, entry, opts, bytes, false);
    let mon = obs.mon.as_ref().unwrap();
    let usable_monitored = rm.is_ok() && mon.violations.is_empty();
    let mut slice_panic: Option<Panic> = None;
    let imp: Option<Out> = if usable_monitored || (rm.is_ok() && slice_safe(mon)) || (rm.is_err() && mon.violations.is_empty()) {
        let (rs, _) = decode_entry(ReaderKind::Slice, entry, opts, bytes, false);
        match rs {
            Ok(o) => Some(o),
            Err(p) => {
                slice_panic = Some(p);
                None
            }
        }
    } else {
        None
    };
    let mut mismatch: Option<(String, String)> = None; // (signature tail, detail)
    let nontrivial;
    match entry {
        Entry::Message => {
            let d = spec::decode(bytes, eff_opts(opts));
            spec_guards_message(ctx, bytes, &d);
            nontrivial = !matches!(&d.verdict, Verdict::Reject(Rej::IncompleteFlags) | Verdict::Reject(Rej::Version(_)) | Verdict::Reject(Rej::Reserved));
            match (&imp, &d.verdict) {
                (Some(Out::Msg(Ok(m))), Verdict::Accept(s)) | (Some(Out::Msg(Ok(m))), Verdict::Unspecified(s)) => {
                    if m != s {
                        mismatch = Some((format!("value-mismatch {}", diff_field(m, s)), format!("decoded {m:?}, specified {s:?}")));
                    }
                }
                (Some(Out::Msg(Err(_))), Verdict::Reject(_)) | (Some(Out::Msg(Err(_))), Verdict::Unspecified(_)) => (),
                (Some(Out::Msg(Ok(m))), Verdict::Reject(r)) => {
                    mismatch = Some((format!("accepts-specified-reject {}", rej_class(r)), format!("decoded {m:?}, specification rejects with {r:?}")));
                }
                (Some(Out::Msg(Err(e))), Verdict::Accept(s)) => {
                    mismatch = Some((
                        format!("rejects-specified-accept {} {}", first_err_name(e), msg_kind(s)),
                        format!("rejected with {e:?}, specification accepts {s:?}"),
                    ));
                }
                (None, Verdict::Accept(s)) => {
                    // the implementation cannot produce a result at all (panic / out-of-contract read)
                    let why = match (&rm, &slice_panic, mon.violations.first()) {
                        (Err(p), _, _) => format!("panic at {}", p.0),
                        (_, Some(p), _) => format!("panic at {}", p.0),
                        (_, _, Some(v)) => format!("out-of-contract read at {}", v.site),
                        _ => "no result".to_string(),
                    };
                    mismatch = Some((format!("no-result-for-specified-accept {} {}", why, msg_kind(s)), format!("{why}; specification accepts {s:?}")));
                }
                (None, _) => ctx.tally("no-result-specified-reject"),
                _ => (),
            }
            ctx.tally(match &d.verdict {
                Verdict::Accept(SMessage::Control { .. }) => "spec-accept-control",
                Verdict::Accept(SMessage::Data { .. }) => "spec-accept-data",
                Verdict::Unspecified(_) => "spec-unspecified",
                Verdict::Reject(r) => rej_class(r),
            });
        }
        Entry::AvpList => {
            let (items, _) = spec::decode_avps(bytes);
            spec_guards_avps(ctx, bytes, &items);
            nontrivial = bytes.len() >= 6;
            match &imp {
                Some(Out::Avps(v)) => {
                    if let Err(e) = avps_agree(v, &items) {
                        let tail = match items.iter().zip(v.iter()).position(|(s, i)| match (&s.res, i) {
                            (Ok(a), Ok(b)) => a != b,
                            (Err(_), Err(_)) => false,
                            _ => true,
                        }) {
                            Some(i) => match &items[i].res {
                                Ok(a) => format!("element-specified-ok attr{}", a.attr()),
                                Err(r) => format!("element-specified-{}", avp_rej_class(r)),
                            },
                            None => "list-length".to_string(),
                        };
                        mismatch = Some((format!("avps {tail}"), e));
                    }
                }
                None => ctx.tally("no-result-avps"),
                _ => (),
            }
            ctx.tally(if items.iter().all(|i| i.res.is_ok()) { "spec-avps-all-ok" } else { "spec-avps-some-rejected" });
        }
        Entry::Type(attr) => {
            let s = spec::decode_payload(attr, bytes);
            nontrivial = !bytes.is_empty();
            match (&imp, &s) {
                (Some(Out::Type(Some(Ok(a)))), Ok(v)) => {
                    let want = SAvp::Plain { attr, val: v.clone() };
                    if *a != want {
                        mismatch = Some((format!("type{attr} value-mismatch"), format!("decoded {a:?}, specified {want:?}")));
                    }
                }
                (Some(Out::Type(Some(Err(_)))), Err(_)) => (),
                (Some(Out::Type(Some(Ok(a)))), Err(r)) => mismatch = Some((format!("type{attr} accepts-specified-{}", avp_rej_class(r)), format!("decoded {a:?}, specification rejects {r:?}"))),
                (Some(Out::Type(Some(Err(e)))), Ok(v)) => mismatch = Some((format!("type{attr} rejects-specified-accept"), format!("rejected with {e:?}, specification accepts {v:?}"))),
                (None, Ok(v)) => mismatch = Some((format!("type{attr} no-result-for-specified-accept"), format!("panic or out-of-contract read; specification accepts {v:?}"))),
                _ => (),
            }
            ctx.tally(if s.is_ok() { "spec-type-ok" } else { "spec-type-rejected" });
        }
    }
    if let Some((tail, detail)) = mismatch {
        ctx.violation(format!("C05 {} {tail}", entry_str(entry).split(':').next().unwrap_or("")), detail, bytes.len(), || wire_json(entry, opts, bytes));
    }
    // informational: highest input offset the decoder was handed (never decides anything)
    if nontrivial {
        ctx.note_nontrivial(case_hash(entry, opts, bytes));
    }
    ctx.sample(|| wire_json(entry, opts, bytes));
}

fn msg_kind(s: &SMessage) -> &'static str {
    match s {
        SMessage::Control { .. } => "control",
        SMessage::Data { .. } => "data",
    }
}

#[allow(dead_code)]
fn msg_shape(s: &SMessage) -> String {
    match s {
        SMessage::Control { avps, .. } => format!("control-{}avps", avps.len().min(3)),
        SMessage::Data {
            prio,
            length,
            ns_nr,
            ..
        } => format!(
            "data{}{}{}",
            if length.is_some() { "-L" } else { "" },
            if ns_nr.is_some() { "-S" } else { "" },
            if *prio { "-P" } else { "" }
        ),
    }
}

pub fn diff_field(a: &SMessage, b: &SMessage) -> String {
    match (a, b) {
        (
            SMessage::Control {
                length: l1,
                tid: t1,
                sid: s1,
                ns: n1,
                nr: r1,
                avps: a1,
            },
            SMessage::Control {
                length: l2,
                tid: t2,
                sid: s2,
                ns: n2,
                nr: r2,
                avps: a2,
            },
        ) => {
            if l1 != l2 {
                "control.length".into()
            } else if t1 != t2 {
                "control.tunnel_id".into()
            } else if s1 != s2 {
                "control.session_id".into()
            } else if n1 != n2 {
                "control.ns".into()
            } else if r1 != r2 {
                "control.nr".into()
            } else if a1.len() != a2.len() {
                "control.avps.len".into()
            } else {
                match a1.iter().zip(a2.iter()).find(|(x, y)| x != y) {
                    Some((x, _)) => format!("control.avps.attr{}", x.attr()),
                    None => "none".into(),
                }
            }
        }
        (
            SMessage::Data {
                prio: p1,
                length: l1,
                tid: t1,
                sid: s1,
                ns_nr: n1,
                offset: o1,
                data: d1,
            },
            SMessage::Data {
                prio: p2,
                length: l2,
                tid: t2,
                sid: s2,
                ns_nr: n2,
                offset: o2,
                data: d2,
            },
        ) => {
            if p1 != p2 {
                "data.is_prioritized".into()
            } else if l1 != l2 {
                "data.length".into()
            } else if t1 != t2 {
                "data.tunnel_id".into()
            } else if s1 != s2 {
                "data.session_id".into()
            } else if n1 != n2 {
                "data.ns_nr".into()
            } else if o1 != o2 {
                "data.offset".into()
            } else if d1 != d2 {
                "data.data".into()
            } else {
                "none".into()
            }
        }
        _ => "message-kind".into(),
    }
}
