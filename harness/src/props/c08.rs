//! C08 — decoding consumes exactly the declared length; octets beyond it have no influence;
//! AVP decoding is compositional over well-delimited records.
//! C10 — re-encoding a decoded message reaches a fixed point in one step.

use super::errs::dec_avps;
use super::wirecheck::{opts_for, wire_json};
use super::*;
use crate::bridge;
use crate::ctx::{fnv, guarded, Ctx};
use crate::explore::{explore, Chooser};
use crate::gen::{self, Entry, RecClass, WireCase};
use crate::monitor::{Mon, R2, R3};
use crate::run::{self, ReaderKind};
use crate::spec::{self, hex, unhex, SAvp, SMessage, SVal};
use rl2tp::common::{Reader, SliceReader, VecWriter};
use rl2tp::Message;
use serde_json::{json, Value};
use std::cell::RefCell;

pub fn defs() -> Vec<PropDef> {
    vec![
        PropDef {
            id: "C08",
            profiles: BOTH,
            shards: sixteen,
            run: run_c08,
            replay: replay_c08,
            post: |_, g, _| {
                for k in ["suffix-accepted-control", "suffix-accepted-data-L", "suffix-rejected", "back-to-back", "compositional"] {
                    if !g.contains_key(k) {
                        return Err(format!("C08 guard {k} never hit"));
                    }
                }
                Ok(())
            },
            rule: "(i) every message input of the wire sweep W0-W6 that carries a Length field and holds at least that many octets is cut to its declared length b and decoded as b and as b++s for 8 suffixes s (1-64 octets: 00, ff, a flag word, stray octets, a valid AVP header, 64 x 00 / ff / valid AVPs) under the strict and the empty option set; (ii) every sequence of up to 3 (quick) / 4 (thorough) messages over a 14-message menu, encoded back to back by the reference encoder and decoded repeatedly from one SliceReader and one monitored reader; (iii) every sequence of up to 4 / 5 records of the record menu compared with the concatenation of the per-record results. Non-trivial: (i) the cut input is accepted, (ii)(iii) the sequence has at least two elements.",
            bounds: |t| json!({"suffixes": 8, "message_menu": 14, "max_messages": if t.thorough() {4} else {3}, "record_menu": gen::record_menu().len(), "max_records": if t.thorough() {5} else {4}}),
            assumptions: COMMON_ASSUMPTIONS,
            fd_monitor: false,
            mem_gb: mem4,
            watchdog_s: wd,
            deadline_s: no_deadline,
        },
        PropDef {
            id: "C10",
            profiles: BOTH,
            shards: sixteen,
            run: run_c10,
            replay: replay_c10,
            post: |_, g, _| {
                for k in ["accepted-control", "accepted-data", "non-canonical-input"] {
                    if !g.contains_key(k) {
                        return Err(format!("C10 guard {k} never hit"));
                    }
                }
                Ok(())
            },
            rule: "every message input of the wire sweep W0-W6 that the decoder accepts as a control message, or as a data message whose flag word has no O bit, under each option set: decode -> encode -> strict decode -> encode; the second value must equal the first up to the control Length field and the two encodings must be identical. Non-trivial: the input is accepted (only those are evaluated); distinct by input octets and option set.",
            bounds: super::wirecheck::wire_bounds,
            assumptions: COMMON_ASSUMPTIONS,
            fd_monitor: false,
            mem_gb: mem4,
            watchdog_s: wd,
            deadline_s: no_deadline,
        },
    ]
}

// ---------------------------------------------------------------------------------------------
// C08 (i)

fn suffixes() -> Vec<Vec<u8>> {
    let mut avps = Vec::new();
    for _ in 0..8 {
        avps.extend_from_slice(&gen::avp_record(0x01, 0, 9, &[0x12, 0x34]));
    }
    vec![
        vec![0x00],
        vec![0xff],
        vec![0xc8, 0x02],
        vec![0x00, 0x08, 0x00],
        vec![0x00, 0x08, 0x00, 0x00, 0x00, 0x09],
        vec![0x00; 64],
        vec![0xff; 64],
        avps,
    ]
}

/// declared total length of a message input, if it carries a Length field
fn declared_length(b: &[u8]) -> Option<usize> {
    if b.len() < 4 {
        return None;
    }
    let flags = ((b[0] as u16) << 8) | b[1] as u16;
    if flags & spec::F_L == 0 {
        return None;
    }
    Some((((b[2] as u16) << 8) | b[3] as u16) as usize)
}

fn data_header_len(b: &[u8]) -> usize {
    let flags = ((b[0] as u16) << 8) | b[1] as u16;
    let mut n = 6;
    if flags & spec::F_L != 0 {
        n += 2;
    }
    if flags & spec::F_S != 0 {
        n += 4;
    }
    if flags & spec::F_O != 0 {
        n += 2;
        // the offset padding belongs to what the header parser consumes
        if b.len() >= n {
            n += (((b[n - 2] as usize) << 8) | b[n - 1] as usize).min(70_000);
        }
    }
    n
}

fn dec_rem(bytes: &[u8], opts: Option<u8>) -> Option<(run::MsgOut, usize)> {
    let (r, obs) = run::decode_msg(ReaderKind::R2a, bytes, opts, false);
    if !obs.mon.as_ref().unwrap().violations.is_empty() {
        return None;
    }
    r.ok().map(|o| (o, obs.remaining))
}

fn check_suffix(ctx: &mut Ctx, b: &[u8], opts: Option<u8>) {
    let Some((base, rem0)) = dec_rem(b, opts) else {
        ctx.tally("no-result");
        return;
    };
    let viol = |ctx: &mut Ctx, sig: &str, detail: String| {
        ctx.violation(format!("C08 {sig}"), detail, b.len(), || json!({"kind":"suffix","opts":opts,"hex":hex(b)}));
    };
    let is_control = b[0] & 0x01 != 0;
    match &base {
        Ok(_) => {
            ctx.guard(if is_control { "suffix-accepted-control" } else { "suffix-accepted-data-L" });
            if rem0 != 0 {
                viol(ctx, "accepted-does-not-consume-declared-length", format!("input cut to its declared length {} leaves {rem0} octets unread", b.len()));
            }
            ctx.note_nontrivial(fnv(b, opts.map(|o| o as u64 + 1).unwrap_or(0)));
        }
        Err(_) => ctx.guard("suffix-rejected"),
    }
    let mut buf = Vec::with_capacity(b.len() + 64);
    for (i, s) in suffixes().iter().enumerate() {
        buf.clear();
        buf.extend_from_slice(b);
        buf.extend_from_slice(s);
        let Some((with, rem)) = dec_rem(&buf, opts) else {
            ctx.tally("no-result");
            continue;
        };
        match (&base, &with) {
            (Ok(m), Ok(m2)) => {
                if m != m2 {
                    viol(ctx, &format!("suffix-changes-value {}", super::wirecheck::diff_field(m2, m)), format!("with suffix #{i} ({} octets) decoded {m2:?}, without {m:?}", s.len()));
                } else if rem != s.len() {
                    viol(
                        ctx,
                        "remaining-after-decode",
                        format!("declared length {}, suffix of {} octets, reader has {rem} octets left", b.len(), s.len()),
                    );
                }
            }
            (Err(e0), Err(e1)) => {
                // when the declared length covers at least the fixed header, the cut input holds
                // every octet the header parser looks at, so the errors themselves must agree
                let hdr = if is_control { 12 } else { data_header_len(b) };
                if b.len() >= hdr && e0 != e1 {
                    viol(ctx, "suffix-changes-error-list", format!("alone rejected with {e0:?}, followed by suffix #{i} with {e1:?}"));
                }
            }
            (Ok(m), Err(e)) => viol(ctx, "suffix-turns-accept-into-reject", format!("accepted {m:?} alone, rejected with {e:?} when followed by suffix #{i}")),
            (Err(e), Ok(m)) => viol(ctx, "suffix-turns-reject-into-accept", format!("rejected with {e:?} alone, accepted as {m:?} when followed by suffix #{i}")),
        }
    }
    ctx.tally(if base.is_ok() { "accepted" } else { "rejected" });
    ctx.sample(|| json!({"kind":"suffix","opts":opts,"hex":hex(b)}));
}

// ---------------------------------------------------------------------------------------------
// C08 (ii) back-to-back messages

/// (name, encoded octets, expected decoded value, may only be last)
fn message_menu() -> Vec<(&'static str, Vec<u8>, SMessage, bool)> {
    let mut out = Vec::new();
    let ctl = |avps: Vec<SAvp>| SMessage::Control {
        length: 0,
        tid: gen::TID,
        sid: gen::SID,
        ns: gen::NS,
        nr: gen::NR,
        avps,
    };
    let mt = SAvp::Plain { attr: 0, val: SVal::MessageType(1) };
    let controls = vec![
        ("zlb", ctl(vec![])),
        ("control-1", ctl(vec![mt.clone()])),
        (
            "control-3-greedy-last",
            ctl(vec![mt.clone(), SAvp::Plain { attr: 9, val: SVal::U16(7) }, SAvp::Plain { attr: 7, val: SVal::Bytes(vec![0x13, 0x20, 0x00, 0x0c]) }]),
        ),
        (
            "control-hidden-last",
            ctl(vec![mt.clone(), SAvp::Plain { attr: 36, val: SVal::Fix4([1, 2, 3, 4]) }, SAvp::Hidden { attr: 11, value: gen::ramp(32) }]),
        ),
        ("control-utf8-last", ctl(vec![mt, SAvp::Plain { attr: 8, val: SVal::Str("vé".into()) }])),
    ];
    for (n, m) in controls {
        let mut b = Vec::new();
        spec::encode(&m, &mut b).unwrap();
        let want = match m {
            SMessage::Control { tid, sid, ns, nr, avps, .. } => SMessage::Control {
                length: b.len() as u16,
                tid,
                sid,
                ns,
                nr,
                avps,
            },
            x => x,
        };
        out.push((n, b, want, false));
    }
    // data with L in every {S,O,P} combination
    const NAMES: [&str; 8] = ["data-L", "data-LS", "data-LO", "data-LSO", "data-LP", "data-LSP", "data-LOP", "data-LSOP"];
    for sub in 0..8u8 {
        let (s, o, p) = (sub & 1 != 0, sub & 2 != 0, sub & 4 != 0);
        let pad: Vec<u8> = if o { vec![0xe0, 0xe1] } else { vec![] };
        let payload = vec![0x13, 0x20, 0xa0 + sub];
        let mut m = SMessage::Data {
            prio: p,
            length: Some(0),
            tid: gen::TID,
            sid: gen::SID,
            ns_nr: if s { Some((gen::NS, gen::NR)) } else { None },
            offset: if o { Some(pad.len() as u16) } else { None },
            data: [pad.clone(), payload.clone()].concat(),
        };
        let mut b = Vec::new();
        spec::encode(&m, &mut b).unwrap();
        let total = b.len() as u16;
        if let SMessage::Data { length, .. } = &mut m {
            *length = Some(total);
        }
        b.clear();
        spec::encode(&m, &mut b).unwrap();
        let want = SMessage::Data {
            prio: p,
            length: Some(total),
            tid: gen::TID,
            sid: gen::SID,
            ns_nr: if s { Some((gen::NS, gen::NR)) } else { None },
            offset: None,
            data: payload,
        };
        out.push((NAMES[sub as usize], b, want, false));
    }
    // data without L consumes everything: only last
    let m = SMessage::Data {
        prio: false,
        length: None,
        tid: gen::TID,
        sid: gen::SID,
        ns_nr: None,
        offset: None,
        data: vec![0xd1, 0xd2],
    };
    let mut b = Vec::new();
    spec::encode(&m, &mut b).unwrap();
    out.push(("data-noL", b, m, true));
    out
}

fn check_back_to_back(ctx: &mut Ctx, idx: &[usize]) {
    let menu = message_menu();
    let mut buf = Vec::new();
    for i in idx {
        buf.extend_from_slice(&menu[*i].1);
    }
    let viol = |ctx: &mut Ctx, sig: String, detail: String| {
        ctx.violation(format!("C08 back-to-back {sig}"), detail, idx.len(), || json!({"kind":"b2b","messages":idx}));
    };
    // one SliceReader
    let got_slice = guarded(|| {
        let mut r = SliceReader::from(&buf[..]);
        let mut got = Vec::new();
        for _ in idx {
            got.push(run::decode_msg_with(&mut r, Some(spec::OPT_STRICT)));
        }
        (got, Reader::len(&r))
    });
    // one monitored reader, owning variant
    let mon = RefCell::new(Mon::new(false));
    let got_mon = guarded(|| {
        let mut r = R3::new(&buf, &mon);
        let mut got = Vec::new();
        for _ in idx {
            got.push(run::decode_msg_with(&mut r, Some(spec::OPT_STRICT)));
        }
        (got, Reader::len(&r))
    });
    let mon2 = RefCell::new(Mon::new(true));
    let got_mon2 = guarded(|| {
        let mut r = R2::new(&buf, &mon2);
        let mut got = Vec::new();
        for _ in idx {
            got.push(run::decode_msg_with(&mut r, Some(spec::OPT_STRICT)));
        }
        (got, Reader::len(&r))
    });
    for (name, res) in [("SliceReader", got_slice), ("owning monitored reader", got_mon), ("slice monitored reader", got_mon2)] {
        match res {
            Err(p) => {
                viol(ctx, format!("panic {}", p.0), format!("{name}: panic at {}: {}", p.0, p.1));
                return;
            }
            Ok((got, rem)) => {
                for (k, (g, i)) in got.iter().zip(idx.iter()).enumerate() {
                    let want = &menu[*i].2;
                    if g.as_ref().ok() != Some(want) {
                        viol(
                            ctx,
                            format!("{}-after-{}", menu[*i].0, if k == 0 { "start" } else { menu[idx[k - 1]].0 }),
                            format!("{name}: decode #{k} of {:?} gave {g:?}, expected {want:?}", idx.iter().map(|i| menu[*i].0).collect::<Vec<_>>()),
                        );
                        return;
                    }
                }
                if rem != 0 {
                    viol(ctx, "reader-not-empty".into(), format!("{name}: {rem} octets left after decoding all messages"));
                }
            }
        }
    }
    if !mon.borrow().violations.is_empty() || !mon2.borrow().violations.is_empty() {
        viol(ctx, "out-of-contract".into(), "monitored reader saw an out-of-contract request".into());
    }
    ctx.guard("back-to-back");
    if idx.len() >= 2 {
        ctx.note_nontrivial(fnv(&buf, 82));
    }
    ctx.tally("back-to-back");
    ctx.sample(|| json!({"kind":"b2b","messages":idx,"names":idx.iter().map(|i| menu[*i].0).collect::<Vec<_>>()}));
}

// ---------------------------------------------------------------------------------------------
// C08 (iii) compositional AVP decoding

fn check_compositional(ctx: &mut Ctx, idx: &[usize]) {
    let menu = gen::record_menu();
    if idx.iter().enumerate().any(|(i, r)| menu[*r].class == RecClass::Stray && i + 1 != idx.len()) {
        ctx.tally("skipped-stray-not-last");
        return;
    }
    let mut whole = Vec::new();
    let mut expected: run::AvpsOut = Vec::new();
    let mut cut = false;
    for r in idx {
        whole.extend_from_slice(&menu[*r].bytes);
        if cut {
            continue;
        }
        let Some(alone) = dec_avps(&menu[*r].bytes) else {
            ctx.tally("no-result");
            return;
        };
        expected.extend(alone);
        if menu[*r].class == RecClass::Unusable {
            cut = true;
        }
    }
    let Some(got) = dec_avps(&whole) else {
        ctx.tally("no-result");
        return;
    };
    if got != expected {
        let pos = got.iter().zip(expected.iter()).position(|(a, b)| a != b).unwrap_or(got.len().min(expected.len()));
        ctx.violation(
            format!("C08 compositional differs-at-{}", idx.get(pos).map(|r| menu[*r].name).unwrap_or("end")),
            format!(
                "records {:?}: decoding the concatenation gives {got:?}, concatenating the per-record results gives {expected:?}",
                idx.iter().map(|r| menu[*r].name).collect::<Vec<_>>()
            ),
            idx.len(),
            || json!({"kind":"compositional","records":idx}),
        );
    }
    ctx.guard("compositional");
    if idx.len() >= 2 {
        ctx.note_nontrivial(fnv(&whole, 83));
    }
    ctx.tally("compositional");
}

fn run_c08(ctx: &mut Ctx) {
    let tier = ctx.tier;
    ctx.nontrivial_mod = 1;
    // (i)
    let mut sink = |ctx: &mut Ctx, wc: &WireCase| {
        if wc.entry != Entry::Message {
            return;
        }
        let Some(l) = declared_length(wc.bytes) else { return };
        if l > wc.bytes.len() || l < 2 {
            return;
        }
        let b = &wc.bytes[..l];
        for opts in [Some(spec::OPT_STRICT), Some(0)] {
            let desc = || json!({"kind":"suffix","opts":opts,"hex":hex(b)});
            ctx.states += 8;
            ctx.transitions += 8;
            ctx.case(&desc, |ctx| check_suffix(ctx, b, opts));
        }
    };
    gen::wire(ctx, tier, &mut sink);
    // (ii)
    let menu_len = message_menu().len() as u32;
    let last_only: Vec<bool> = message_menu().iter().map(|m| m.3).collect();
    let maxm = if tier.thorough() { 4 } else { 3 };
    let st = explore(None, |c: &mut Chooser| {
        let k = 1 + c.pick(maxm) as usize;
        let mut idx = Vec::new();
        for i in 0..k {
            let m = c.pick(menu_len) as usize;
            if last_only[m] && i + 1 != k {
                return true;
            }
            idx.push(m);
        }
        if !ctx.mine_key(c.prefix_key()) {
            return true;
        }
        let i2 = idx.clone();
        let desc = move || json!({"kind":"b2b","messages":i2});
        ctx.case(&desc, |ctx| check_back_to_back(ctx, &idx));
        true
    });
    ctx.states += st.states;
    ctx.transitions += st.transitions;
    // (iii)
    let n = gen::record_menu().len() as u32;
    let maxr = if tier.thorough() { 5 } else { 4 };
    let st = explore(None, |c: &mut Chooser| {
        let k = 1 + c.pick(maxr) as usize;
        let idx: Vec<usize> = (0..k).map(|_| c.pick(n) as usize).collect();
        if !ctx.mine_key(c.prefix_key()) {
            return true;
        }
        let i2 = idx.clone();
        let desc = move || json!({"kind":"compositional","records":i2});
        ctx.case(&desc, |ctx| check_compositional(ctx, &idx));
        true
    });
    ctx.states += st.states;
    ctx.transitions += st.transitions;
}

fn replay_c08(ctx: &mut Ctx, v: &Value) {
    match v["kind"].as_str() {
        Some("suffix") => {
            let b = v["hex"].as_str().and_then(unhex).unwrap_or_default();
            let opts = v["opts"].as_u64().map(|x| x as u8);
            let desc = || json!({"kind":"suffix","opts":opts,"hex":hex(&b)});
            ctx.case(&desc, |ctx| check_suffix(ctx, &b, opts));
        }
        Some("b2b") => {
            let idx: Vec<usize> = v["messages"].as_array().map(|a| a.iter().map(|x| x.as_u64().unwrap_or(0) as usize).collect()).unwrap_or_default();
            let i2 = idx.clone();
            let desc = move || json!({"kind":"b2b","messages":i2});
            ctx.case(&desc, |ctx| check_back_to_back(ctx, &idx));
        }
        Some("compositional") => {
            let idx: Vec<usize> = v["records"].as_array().map(|a| a.iter().map(|x| x.as_u64().unwrap_or(0) as usize).collect()).unwrap_or_default();
            let i2 = idx.clone();
            let desc = move || json!({"kind":"compositional","records":i2});
            ctx.case(&desc, |ctx| check_compositional(ctx, &idx));
        }
        _ => {
            eprintln!("machinery: bad C08 replay case");
            std::process::exit(2);
        }
    }
}

// ---------------------------------------------------------------------------------------------
// C10

fn decode_owned(bytes: &[u8], opts: Option<u8>) -> Option<Result<Message<crate::monitor::Lease>, ()>> {
    let mon = RefCell::new(Mon::new(false));
    let r = guarded(|| {
        let mut r = R3::new(bytes, &mon);
        match opts {
            None => Message::<crate::monitor::Lease>::try_read(&mut r),
            Some(o) => Message::<crate::monitor::Lease>::try_read_validate(&mut r, bridge::options(o)),
        }
    });
    if !mon.borrow().violations.is_empty() {
        return None;
    }
    r.ok().map(|x| x.map_err(|_| ()))
}

fn normalise(m: &SMessage) -> SMessage {
    match m {
        SMessage::Control { tid, sid, ns, nr, avps, .. } => SMessage::Control {
            length: 0,
            tid: *tid,
            sid: *sid,
            ns: *ns,
            nr: *nr,
            avps: avps.clone(),
        },
        x => x.clone(),
    }
}

fn check_fixed_point(ctx: &mut Ctx, bytes: &[u8], opts: Option<u8>) {
    if bytes.len() < 2 {
        return;
    }
    let flags = ((bytes[0] as u16) << 8) | bytes[1] as u16;
    let is_control = flags & spec::F_T != 0;
    if !is_control && flags & spec::F_O != 0 {
        return; // data message with an offset field: outside the property's domain
    }
    let Some(Ok(m)) = decode_owned(bytes, opts) else {
        return;
    };
    let viol = |ctx: &mut Ctx, sig: String, detail: String| {
        ctx.violation(format!("C10 {sig}"), detail, bytes.len(), || wire_json(Entry::Message, opts, bytes));
    };
    ctx.guard(if is_control { "accepted-control" } else { "accepted-data" });
    let s0 = bridge::message_to_spec(&m);
    let mut w1 = VecWriter::new();
    if let Err(p) = guarded(|| m.write(&mut w1)) {
        viol(ctx, format!("encode-of-decoded-value-panics {}", p.0), format!("encoding the decoded value {s0:?} panicked at {}: {}", p.0, p.1));
        return;
    }
    let e1 = w1.data;
    if e1 != bytes {
        ctx.guard("non-canonical-input");
    }
    let m2 = match decode_owned(&e1, Some(spec::OPT_STRICT)) {
        Some(Ok(m2)) => m2,
        Some(Err(())) => {
            viol(ctx, format!("reencoded-message-rejected {}", if is_control { "control" } else { "data" }), format!("decoded {s0:?}; its encoding {} is rejected by the strict decoder", hex(&e1)));
            return;
        }
        None => {
            viol(ctx, "reencoded-message-no-result".into(), format!("decoding {} panicked or read out of contract", hex(&e1)));
            return;
        }
    };
    let s1 = bridge::message_to_spec(&m2);
    // the crate's own equality on the decoded values (private fields such as raw bitmask words
    // included), up to the control Length field
    let same_value = match (&m, &m2) {
        (Message::Control(a), Message::Control(b)) => a.tunnel_id == b.tunnel_id && a.session_id == b.session_id && a.ns == b.ns && a.nr == b.nr && a.avps == b.avps,
        (Message::Data(a), Message::Data(b)) => a == b,
        _ => false,
    };
    if !same_value && normalise(&s1) == normalise(&s0) {
        let which = match (&m, &m2) {
            (Message::Control(a), Message::Control(b)) => a.avps.iter().zip(b.avps.iter()).find(|(x, y)| x != y).map(|(x, _)| bridge::variant_name(x)).unwrap_or_default(),
            _ => "data".to_string(),
        };
        viol(ctx, format!("value-drifts private-state {which}"), format!("first decode {m:?}, after re-encoding {m2:?}"));
        return;
    }
    if normalise(&s1) != normalise(&s0) {
        viol(
            ctx,
            format!("value-drifts {}", super::wirecheck::diff_field(&normalise(&s1), &normalise(&s0))),
            format!("first decode {s0:?}, after re-encoding {s1:?}"),
        );
        return;
    }
    if let SMessage::Control { length, .. } = &s1 {
        if *length as usize != e1.len() {
            viol(ctx, "control-length-not-new-size".into(), format!("re-encoded message has {} octets, decoded length field {length}", e1.len()));
        }
    }
    let mut w2 = VecWriter::new();
    if let Err(p) = guarded(|| m2.write(&mut w2)) {
        viol(ctx, format!("second-encode-panics {}", p.0), p.1);
        return;
    }
    if w2.data != e1 {
        viol(ctx, "second-encoding-differs".into(), format!("first encoding {}, second {}", hex(&e1), hex(&w2.data)));
    }
    ctx.note_nontrivial(fnv(bytes, opts.map(|o| o as u64 + 1).unwrap_or(0)));
    super::wirecheck::mark_wire(Entry::Message, opts, bytes);
    ctx.tally(if e1 == bytes { "canonical-input" } else { "non-canonical-input" });
    ctx.sample(|| wire_json(Entry::Message, opts, bytes));
}

fn run_c10(ctx: &mut Ctx) {
    let tier = ctx.tier;
    ctx.nontrivial_mod = if tier.thorough() { 16 } else { 1 };
    let mut sink = |ctx: &mut Ctx, wc: &WireCase| {
        if wc.entry != Entry::Message {
            return;
        }
        for &opts in opts_for(wc.body_level, tier) {
            let bytes = wc.bytes;
            let desc = || wire_json(Entry::Message, opts, bytes);
            ctx.case(&desc, |ctx| check_fixed_point(ctx, bytes, opts));
            super::wirecheck::remember_wire(Entry::Message, opts, bytes);
        }
    };
    gen::wire(ctx, tier, &mut sink);
}

fn replay_c10(ctx: &mut Ctx, v: &Value) {
    let bytes = v["hex"].as_str().and_then(unhex).unwrap_or_default();
    let opts = v["opts"].as_u64().map(|x| x as u8);
    for (_, o, b) in super::wirecheck::wire_history_of(v) {
        let mut scratch = Ctx::new(&ctx.prop, ctx.tier, 0, 1);
        check_fixed_point(&mut scratch, &b, o);
    }
    let desc = || json!({"kind":"wire","entry":"message","opts":opts,"hex":hex(&bytes)});
    ctx.case(&desc, |ctx| check_fixed_point(ctx, &bytes, opts));
}
