//! Value-space properties: C03 (control/AVP round trip), C04 (data round trip), C06 (encoder
//! emits the specified octets), C07 (length fields exact, oversize refused).

use super::errs::{dec_avps, dec_msg};
use super::*;
use crate::bridge;
use crate::ctx::{fnv, guarded, Ctx};
use crate::gen::{self, ramp};
use crate::run::{self, ReaderKind};
use crate::spec::{self, hex, EncErr, SAvp, SMessage, SVal};
use crate::vgen;
use rl2tp::common::VecWriter;
use serde_json::{json, Value};

#[derive(Clone, Copy, PartialEq, Eq, Debug)]
enum Which {
    C03,
    C04,
    C06,
    C07,
    /// position independence over the same value space (called from `hist.rs`)
    C09,
}

fn which_of(ctx: &Ctx) -> Which {
    match ctx.prop.as_str() {
        "C03" => Which::C03,
        "C04" => Which::C04,
        "C06" => Which::C06,
        "C09" => Which::C09,
        _ => Which::C07,
    }
}

pub fn defs() -> Vec<PropDef> {
    let mk = |id: &'static str, rule: &'static str, post: fn(Tier, &Guards, &Guards) -> Result<(), String>| PropDef {
        id,
        profiles: BOTH,
        shards: sixteen,
        run: run_values,
        replay: replay_values,
        post,
        rule,
        bounds: |t| {
            json!({
                "u8_u16_fields": "all values",
                "u32_fields": if t.thorough() { "all 2^32 values for each of the nine 32-bit kinds in the release profile; every 16th 65536-word block plus the first 256 blocks in the debug-assertions profile" } else { "boundary alphabet (walking one/zero, single non-zero octet, extremes): 1090 values" },
                "u64_fields": "boundary alphabet: ~2170 values",
                "variable_payload_lengths": vgen::VAR_LENGTHS, "oversize_lengths": vgen::OVERSIZE_LENGTHS,
                "hidden": "attribute type all 65536 x value lengths {0,1,15,16,17,32,1008,1017}",
                "avp_lists": {"pairs_over_menu": vgen::list_menu().len(), "triples_over_submenu": 16, "quadruples_over_submenu": t.thorough(), "size_sweep_octets": "65529..=65550"},
                "data_messages": "priority x length {None, true, wrong} x ids x ns_nr x offset {None,0,1,|data|-1,|data|,0xffff} x payload {1,2,3,16,1500,65523}; plus every 16-bit value of tunnel id, session id, Ns, Nr, offset size (with that much padding) and length (with a payload of that size), one field at a time",
            })
        },
        assumptions: COMMON_ASSUMPTIONS,
        fd_monitor: false,
        mem_gb: mem4,
        watchdog_s: wd,
        deadline_s: no_deadline,
    };
    vec![
        mk(
            "C03",
            "ENUM over the value space V restricted to the round-trip domain: every AVP value alone (AVP::write then try_read_greedy) and every control message of the list space (Message::write then strict try_read_validate); the decoded value must equal the original with length := octets emitted and the reader must end empty. Non-trivial: every case (values are distinct by construction; hashes are of the specification-side value).",
            |_, g, _| {
                for a in spec::ALL_ATTRS {
                    if !g.contains_key(&format!("roundtrip-kind-{a}")) {
                        return Err(format!("no round trip executed for AVP kind {a}"));
                    }
                }
                for k in ["roundtrip-hidden", "roundtrip-control-multi", "length-needs-high-bits"] {
                    if !g.contains_key(k) {
                        return Err(format!("C03 guard {k} never hit"));
                    }
                }
                Ok(())
            },
        ),
        mk(
            "C04",
            "ENUM full product of data messages inside the property's domain (|data|>0, length None or the true size, offset None or n <= |data|-1), Message::write then try_read_validate under all 8 option sets with T=&[u8] and T=Vec<u8>; decoded = original with offset := None and data := data[n..], reader empty. Non-trivial: every case.",
            |_, g, _| {
                for k in ["data-L", "data-S", "data-O", "data-P", "data-plain"] {
                    if !g.contains_key(k) {
                        return Err(format!("C04 guard {k} never hit"));
                    }
                }
                Ok(())
            },
        ),
        mk(
            "C06",
            "ENUM over all of V that fits the size limits (including values outside the round-trip domain: empty payloads, Some(\"\"), wrong length fields, offsets larger than the data): VecWriter.data must equal the reference encoder's octets, for single AVPs, control messages and data messages. Non-trivial: every case.",
            |_, g, _| {
                for k in ["encoded-avp", "encoded-control", "encoded-data", "encoded-out-of-roundtrip-domain"] {
                    if !g.contains_key(k) {
                        return Err(format!("C06 guard {k} never hit"));
                    }
                }
                Ok(())
            },
        ),
        mk(
            "C07",
            "ENUM over V plus oversize payloads and the 65529..65550 message-size sweep: if encoding returns, an independent walker finds every length field equal to the extent it describes (control Length = octets emitted, each AVP's 10-bit length = its extent, AVPs tile the body, 6 + get_length() = octets of the AVP); a value too large for its length field must not return; AVP::hide of an AVP over 1023 octets must not return. Non-trivial: every case.",
            |_, g, _| {
                for k in ["avp-length-over-255", "avp-length-1023", "avp-oversize-refused", "message-65535", "message-oversize-refused", "hide-oversize-refused"] {
                    if !g.contains_key(k) {
                        return Err(format!("C07 guard {k} never hit"));
                    }
                }
                Ok(())
            },
        ),
    ]
}

fn avp_json(a: &SAvp) -> Value {
    json!({"kind":"avp","avp":a.to_json()})
}
fn msg_json(m: &SMessage) -> Value {
    json!({"kind":"msg","msg":m.to_json()})
}

/// the same value encoded into a different conforming `Writer` (the harness's recording writer):
/// `None` when encoding panics or issues an out-of-range overwrite
fn encode_avp_other_writer(c: &rl2tp::avp::AVP) -> Option<Vec<u8>> {
    let mut w = crate::monitor::RecordingWriter::default();
    guarded(|| c.write(&mut w)).ok()?;
    if !w.out_of_range.is_empty() {
        return None;
    }
    Some(w.data)
}

fn encode_msg_other_writer(m: &SMessage) -> Option<Vec<u8>> {
    let c = bridge::message_to_crate(m)?;
    let mut w = crate::monitor::RecordingWriter::default();
    guarded(|| c.write(&mut w)).ok()?;
    if !w.out_of_range.is_empty() {
        return None;
    }
    Some(w.data)
}

fn encode_avp_crate(a: &SAvp) -> Option<(rl2tp::avp::AVP, Result<Vec<u8>, (String, String)>)> {
    let c = bridge::avp_to_crate(a)?;
    let r = guarded(|| {
        let mut w = VecWriter::new();
        c.write(&mut w);
        w.data
    });
    Some((c, r))
}

/// C09 over the value space: the value encoded (a) three times into one live `VecWriter` that
/// already received 7 octets, (b) into a `VecWriter` holding exactly one octet (odd offset, no
/// spare capacity), (c) twice into another conforming `Writer` positioned at 65 533 — each must
/// give the earlier octets followed by copies of the encoding into an empty writer, and every
/// positional overwrite must lie inside the value being encoded.
fn position_check(ctx: &mut Ctx, label: &str, size: usize, desc: &dyn Fn() -> Value, enc_v: &dyn Fn(&mut VecWriter), enc_r: &dyn Fn(&mut crate::monitor::RecordingWriter)) {
    use rl2tp::common::Writer;
    let viol = |ctx: &mut Ctx, class: &str, detail: String| {
        ctx.violation(format!("C09 value-space {class} {label}"), detail, size, desc);
    };
    let mut w0 = VecWriter::new();
    if guarded(|| enc_v(&mut w0)).is_err() {
        // refused by the encoder or by VecWriter: the latter when the encoder asked for an
        // overwrite outside what it had written, which a recording Writer shows
        let mut r = crate::monitor::RecordingWriter::default();
        let _ = guarded(|| enc_r(&mut r));
        if let Some(o) = r.out_of_range.first() {
            viol(ctx, "overwrite-outside-value", format!("into an empty Writer: positional overwrite of {} octets at offset {} (at {}) with only {} octets written", o.len, o.offset, o.site, o.writer_len));
        }
        ctx.tally("encode-refused");
        return;
    }
    let alone = w0.data;
    // (a)
    let prefix = [0xaau8; 7];
    let mut w = VecWriter::new();
    if guarded(|| w.write_bytes(&prefix)).is_ok() && w.data == prefix {
        let mut want = prefix.to_vec();
        for k in 1..=3 {
            let before = want.len();
            if let Err(p) = guarded(|| enc_v(&mut w)) {
                viol(ctx, "panics", format!("copy {k} into a live writer holding {before} octets: panic at {}: {}", p.0, p.1));
                return;
            }
            want.extend_from_slice(&alone);
            if w.data != want || w.len() != want.len() {
                let at = w.data.iter().zip(want.iter()).position(|(x, y)| x != y).unwrap_or(w.data.len().min(want.len()));
                viol(
                    ctx,
                    if at < before { "earlier-content-changed" } else { "appended-octets-differ" },
                    format!("copy {k} into a live writer holding {before} octets: differs from earlier content ++ encoding-into-empty at octet {at} (lengths {} vs {})", w.data.len(), want.len()),
                );
                return;
            }
        }
    }
    // (b)
    let mut w = VecWriter { data: vec![0x5a] };
    match guarded(|| enc_v(&mut w)) {
        Err(p) => {
            viol(ctx, "panics", format!("into a writer holding 1 octet: panic at {}: {}", p.0, p.1));
            return;
        }
        Ok(()) => {
            if w.data[0] != 0x5a || w.data[1..] != alone[..] {
                viol(ctx, if w.data[0] != 0x5a { "earlier-content-changed" } else { "appended-octets-differ" }, "into a writer holding 1 octet: differs from the octet ++ encoding-into-empty".into());
                return;
            }
        }
    }
    // (c)
    let base = 65_533usize;
    let mut r = crate::monitor::RecordingWriter::at_position(base);
    let mut want: Vec<u8> = Vec::new();
    for k in 1..=2 {
        let start = r.len();
        let seen = r.overwrites.len();
        if let Err(p) = guarded(|| enc_r(&mut r)) {
            viol(ctx, "panics", format!("copy {k} at position {start} of another Writer: panic at {}: {}", p.0, p.1));
            return;
        }
        want.extend_from_slice(&alone);
        if let Some(o) = r.out_of_range.first() {
            viol(ctx, "overwrite-outside-value", format!("copy {k} at position {start}: positional overwrite of {} octets at offset {} (at {}) with {} octets written", o.len, o.offset, o.site, o.writer_len));
            return;
        }
        if let Some(o) = r.overwrites[seen..].iter().find(|o| o.offset < start) {
            viol(ctx, "overwrite-outside-value", format!("copy {k} at position {start}: positional overwrite at offset {} (at {}) lies before the value being encoded", o.offset, o.site));
            return;
        }
        if r.data != want {
            let at = r.data.iter().zip(want.iter()).position(|(x, y)| x != y).unwrap_or(r.data.len().min(want.len()));
            viol(ctx, "appended-octets-differ", format!("copy {k} at position {start} of another Writer: octets differ from the encoding into an empty VecWriter at octet {at} (lengths {} vs {})", r.data.len(), want.len()));
            return;
        }
    }
    ctx.guard("value-space-position");
    ctx.tally("position-independent");
    ctx.note_nontrivial(fnv(&alone, 9));
}

fn position_check_avp(ctx: &mut Ctx, a: &SAvp) {
    let Some(c) = bridge::avp_to_crate(a) else {
        ctx.tally("unrepresentable");
        return;
    };
    let label = format!("attr{}", a.attr());
    position_check(ctx, &label, spec::payload_of(a).len(), &|| avp_json(a), &|w| c.write(w), &|w| c.write(w));
}

fn position_check_msg(ctx: &mut Ctx, m: &SMessage, desc: &dyn Fn() -> Value) {
    let Some(c) = bridge::message_to_crate(m) else {
        ctx.tally("unrepresentable");
        return;
    };
    let (label, size) = match m {
        SMessage::Control { avps, .. } => ("control", avps.len()),
        SMessage::Data { data, .. } => ("data", data.len()),
    };
    position_check(ctx, label, size, desc, &|w| c.write(w), &|w| c.write(w));
}

fn check_avp(ctx: &mut Ctx, a: &SAvp) {
    let which = which_of(ctx);
    if which == Which::C09 {
        return position_check_avp(ctx, a);
    }
    let Some((c, enc)) = encode_avp_crate(a) else {
        ctx.tally("unrepresentable");
        return;
    };
    let mut sp = Vec::new();
    let spec_enc = spec::encode_avp(a, &mut sp).map(|_| sp);
    let size = spec::payload_of(a).len();
    let viol = |ctx: &mut Ctx, sig: String, detail: String| {
        ctx.violation(sig, detail, size, || avp_json(a));
    };
    let kind = match a {
        SAvp::Hidden { .. } => "hidden".to_string(),
        SAvp::Plain { attr, .. } => format!("attr{attr}"),
    };
    match which {
        Which::C06 => match (&enc, &spec_enc) {
            (Ok(b), Ok(s)) => {
                ctx.guard("encoded-avp");
                if !vgen::payload_in_domain(a) {
                    ctx.guard("encoded-out-of-roundtrip-domain");
                }
                if b != s {
                    let at = b.iter().zip(s.iter()).position(|(x, y)| x != y).unwrap_or(b.len().min(s.len()));
                    let region = if at < 2 { "flags-length" } else if at < 4 { "vendor-id" } else if at < 6 { "attribute-type" } else { "payload" };
                    viol(ctx, format!("C06 avp-octets {kind} {region}"), format!("encoder emitted {}, specified {} (first difference at octet {at})", hex(&b[..b.len().min(48)]), hex(&s[..s.len().min(48)])));
                } else if encode_avp_other_writer(&c).as_ref() != Some(s) {
                    viol(ctx, format!("C06 avp-octets-other-writer {kind}"), "the octets are right in a VecWriter but differ (or an overwrite went out of range) when the same value is encoded into another conforming Writer".into());
                }
                ctx.tally("avp-encoded");
            }
            (Err(p), Ok(_)) => viol(ctx, format!("C06 avp-encoder-panics {kind} {}", p.0), format!("encoding a value within the size limits panicked at {}: {}", p.0, p.1)),
            (_, Err(_)) => ctx.tally("avp-over-size-limit (C07's domain)"),
        },
        Which::C07 => {
            // get_length never depends on the encoder
            match guarded(|| c.get_length()) {
                Ok(l) => {
                    if l != size {
                        viol(ctx, format!("C07 get_length {kind}"), format!("get_length() = {l}, the value occupies {size} octets"));
                    }
                }
                Err(p) => viol(ctx, format!("C07 get_length-panics {kind}"), format!("{}: {}", p.0, p.1)),
            }
            match (&enc, &spec_enc) {
                (Ok(b), Err(EncErr::AvpTooLong(n))) => viol(
                    ctx,
                    format!("C07 oversize-avp-encoded {kind}"),
                    format!("an AVP of {n} octets was encoded without failing: first octets {} (length field says {})", hex(&b[..b.len().min(8)]), walker_avp_len(b)),
                ),
                (Ok(b), _) => {
                    let l = walker_avp_len(b);
                    if l != b.len() {
                        viol(ctx, format!("C07 avp-length-field {kind}"), format!("{} octets emitted, 10-bit length field says {l}", b.len()));
                    }
                    if b.len() > 255 {
                        ctx.guard("avp-length-over-255");
                    }
                    if b.len() == 1023 {
                        ctx.guard("avp-length-1023");
                    }
                    ctx.tally("avp-returned");
                }
                (Err(_), Err(_)) => {
                    ctx.guard("avp-oversize-refused");
                    ctx.tally("avp-refused");
                }
                (Err(_), Ok(_)) => ctx.tally("avp-encoder-panics-in-range (C06's finding)"),
            }
        }
        Which::C03 => {
            if !vgen::payload_in_domain(a) {
                return;
            }
            let Ok(b) = &enc else {
                viol(ctx, format!("C03 encode-panics {kind}"), "encoding an in-domain value panicked".into());
                return;
            };
            match dec_avps(b) {
                None => ctx.tally("no-result"),
                Some(v) => {
                    if v.len() != 1 || v[0].as_ref().ok() != Some(a) {
                        viol(ctx, format!("C03 avp-roundtrip {kind}"), format!("encoded as {}, decoded as {v:?}", hex(&b[..b.len().min(48)])));
                    }
                }
            }
            match a {
                SAvp::Hidden { .. } => ctx.guard("roundtrip-hidden"),
                SAvp::Plain { attr, .. } => ctx.guard(&format!("roundtrip-kind-{attr}")),
            }
            if b.len() > 255 {
                ctx.guard("length-needs-high-bits");
            }
            ctx.tally("avp-roundtrip");
        }
        Which::C04 | Which::C09 => (),
    }
    ctx.note_nontrivial(fnv(format!("{a:?}").as_bytes(), 3));
    ctx.sample(|| avp_json(a));
}

fn walker_avp_len(b: &[u8]) -> usize {
    if b.len() < 2 {
        return 0;
    }
    (((b[0] >> 6) as usize) << 8) | b[1] as usize
}

fn encode_msg_crate(m: &SMessage) -> Option<Result<Vec<u8>, (String, String)>> {
    let c = bridge::message_to_crate(m)?;
    Some(guarded(|| {
        let mut w = VecWriter::new();
        c.write(&mut w);
        w.data
    }))
}

fn control_in_domain(avps: &[SAvp]) -> bool {
    avps.iter().all(vgen::payload_in_domain) && avps.first().map_or(true, |a| matches!(a, SAvp::Plain { attr: 0, .. }))
}

fn check_control(ctx: &mut Ctx, m: &SMessage, desc: &dyn Fn() -> Value) {
    let which = which_of(ctx);
    if which == Which::C09 {
        return position_check_msg(ctx, m, desc);
    }
    let SMessage::Control { tid, sid, ns, nr, avps, .. } = m else { return };
    let Some(enc) = encode_msg_crate(m) else {
        ctx.tally("unrepresentable");
        return;
    };
    let mut sp = Vec::new();
    let spec_enc = spec::encode(m, &mut sp).map(|_| sp);
    let size = avps.len();
    let viol = |ctx: &mut Ctx, sig: String, detail: String| {
        ctx.violation(sig, detail, size, || desc());
    };
    match which {
        Which::C06 => match (&enc, &spec_enc) {
            (Ok(b), Ok(s)) => {
                ctx.guard("encoded-control");
                if b != s {
                    let at = b.iter().zip(s.iter()).position(|(x, y)| x != y).unwrap_or(b.len().min(s.len()));
                    let region = match at {
                        0..=1 => "flags",
                        2..=3 => "length",
                        4..=5 => "tunnel-id",
                        6..=7 => "session-id",
                        8..=9 => "ns",
                        10..=11 => "nr",
                        _ => "avps",
                    };
                    viol(ctx, format!("C06 control-octets {region}"), format!("encoder emitted {}.., specified {}.. (first difference at octet {at})", hex(&b[..b.len().min(40)]), hex(&s[..s.len().min(40)])));
                } else if s.len() < 4096 && encode_msg_other_writer(m).as_ref() != Some(s) {
                    viol(ctx, "C06 control-octets-other-writer".into(), "the octets are right in a VecWriter but differ (or an overwrite went out of range) when the same message is encoded into another conforming Writer".into());
                }
                ctx.tally("control-encoded");
            }
            (Err(p), Ok(_)) => viol(ctx, format!("C06 control-encoder-panics {}", p.0), format!("{}: {}", p.0, p.1)),
            (_, Err(_)) => ctx.tally("control-over-size-limit (C07's domain)"),
        },
        Which::C07 => match (&enc, &spec_enc) {
            (Ok(b), Err(e)) => viol(ctx, format!("C07 oversize-control-encoded {}", if matches!(e, EncErr::MessageTooLong(_)) { "message" } else { "avp" }), format!("{e:?} but the encoder returned {} octets, length field {}", b.len(), if b.len() >= 4 { ((b[2] as usize) << 8) | b[3] as usize } else { 0 })),
            (Ok(b), Ok(_)) => {
                // independent walker
                if b.len() < 12 {
                    viol(ctx, "C07 control-too-short".into(), format!("{} octets emitted", b.len()));
                    return;
                }
                let l = ((b[2] as usize) << 8) | b[3] as usize;
                if l != b.len() {
                    viol(ctx, "C07 control-length-field".into(), format!("{} octets emitted, Length field says {l}", b.len()));
                }
                let mut pos = 12;
                for (i, a) in avps.iter().enumerate() {
                    let alone = match encode_avp_crate(a) {
                        Some((_, Ok(x))) => x.len(),
                        _ => {
                            ctx.tally("avp-alone-not-encodable");
                            return;
                        }
                    };
                    if pos + 2 > b.len() {
                        viol(ctx, "C07 avps-do-not-tile".into(), format!("AVP {i} starts at {pos}, message has {} octets", b.len()));
                        return;
                    }
                    let field = walker_avp_len(&b[pos..]);
                    if field != alone {
                        viol(ctx, format!("C07 avp-length-in-message position{}", i.min(3)), format!("AVP {i} occupies {alone} octets, its length field inside the message says {field}"));
                        return;
                    }
                    pos += field;
                }
                if pos != b.len() {
                    viol(ctx, "C07 avps-do-not-tile".into(), format!("AVPs end at {pos}, message has {} octets", b.len()));
                }
                if b.len() == 65535 {
                    ctx.guard("message-65535");
                }
                // the same message appended to a writer that already holds 5 octets: the Length
                // field must still be the number of octets emitted for this message
                if let Some(c) = bridge::message_to_crate(m) {
                    let mut w = VecWriter { data: vec![0xee; 5] };
                    if guarded(|| c.write(&mut w)).is_ok() && w.data.len() >= 9 {
                        let emitted = w.data.len() - 5;
                        let field = ((w.data[7] as usize) << 8) | w.data[8] as usize;
                        if field != emitted {
                            viol(ctx, "C07 control-length-field-after-prefix".into(), format!("{emitted} octets emitted after a 5-octet prefix, Length field says {field}"));
                        }
                    }
                }
                ctx.tally("control-returned");
            }
            (Err(_), Err(e)) => {
                if matches!(e, EncErr::MessageTooLong(_)) {
                    ctx.guard("message-oversize-refused");
                }
                ctx.tally("control-refused");
            }
            (Err(_), Ok(_)) => ctx.tally("control-encoder-panics-in-range (C06's finding)"),
        },
        Which::C03 => {
            if !control_in_domain(avps) || spec_enc.is_err() {
                return;
            }
            let Ok(b) = &enc else {
                viol(ctx, "C03 control-encode-panics".into(), "encoding an in-domain control message panicked".into());
                return;
            };
            let want = SMessage::Control {
                length: b.len() as u16,
                tid: *tid,
                sid: *sid,
                ns: *ns,
                nr: *nr,
                avps: avps.clone(),
            };
            let (r, obs) = run::decode_msg(ReaderKind::R2a, b, Some(spec::OPT_STRICT), false);
            match r {
                Ok(Ok(got)) => {
                    if got != want {
                        viol(ctx, format!("C03 control-roundtrip {}", super::wirecheck::diff_field(&got, &want)), format!("decoded {got:?}, expected {want:?}"));
                    } else if obs.remaining != 0 {
                        viol(ctx, "C03 control-roundtrip reader-not-empty".into(), format!("{} octets left", obs.remaining));
                    }
                }
                Ok(Err(e)) => viol(ctx, "C03 control-roundtrip rejected".into(), format!("own encoding rejected with {e:?}")),
                Err(p) => viol(ctx, "C03 control-roundtrip decode-panics".into(), format!("{}: {}", p.0, p.1)),
            }
            if avps.len() >= 2 {
                ctx.guard("roundtrip-control-multi");
            }
            ctx.tally("control-roundtrip");
        }
        Which::C04 | Which::C09 => (),
    }
    ctx.note_nontrivial(fnv(format!("{m:?}").as_bytes(), 4));
    ctx.sample(|| desc());
}

fn check_data(ctx: &mut Ctx, m: &SMessage) {
    let which = which_of(ctx);
    if which == Which::C09 {
        return position_check_msg(ctx, m, &|| msg_json(m));
    }
    let SMessage::Data { prio, length, tid, sid, ns_nr, offset, data } = m else { return };
    let Some(enc) = encode_msg_crate(m) else { return };
    let mut sp = Vec::new();
    let _ = spec::encode(m, &mut sp);
    let viol = |ctx: &mut Ctx, sig: String, detail: String| {
        ctx.violation(sig, detail, data.len(), || msg_json(m));
    };
    match which {
        Which::C06 => match &enc {
            Ok(b) => {
                ctx.guard("encoded-data");
                if *b != sp {
                    let at = b.iter().zip(sp.iter()).position(|(x, y)| x != y).unwrap_or(b.len().min(sp.len()));
                    viol(ctx, format!("C06 data-octets {}", if at < 2 { "flags" } else { "fields" }), format!("encoder emitted {}.., specified {}.. (first difference at octet {at})", hex(&b[..b.len().min(24)]), hex(&sp[..sp.len().min(24)])));
                } else if sp.len() < 4096 && encode_msg_other_writer(m).as_ref() != Some(&sp) {
                    viol(ctx, "C06 data-octets-other-writer".into(), "the octets are right in a VecWriter but differ when the same message is encoded into another conforming Writer".into());
                }
                ctx.tally("data-encoded");
            }
            Err(p) => viol(ctx, format!("C06 data-encoder-panics {}", p.0), format!("{}: {}", p.0, p.1)),
        },
        Which::C04 => {
            // domain
            let Ok(b) = &enc else {
                viol(ctx, "C04 encode-panics".into(), "encoding a data message panicked".into());
                return;
            };
            let n = offset.map(|o| o as usize).unwrap_or(0);
            let in_domain = !data.is_empty() && length.map_or(true, |l| l as usize == b.len()) && offset.map_or(true, |o| (o as usize) + 1 <= data.len());
            if !in_domain {
                return;
            }
            let want = SMessage::Data {
                prio: *prio,
                length: *length,
                tid: *tid,
                sid: *sid,
                ns_nr: *ns_nr,
                offset: None,
                data: data[n..].to_vec(),
            };
            for opts in 0..8u8 {
                for kind in [ReaderKind::R2a, ReaderKind::R3a] {
                    let (r, obs) = run::decode_msg(kind, b, Some(opts), false);
                    if !obs.mon.as_ref().unwrap().violations.is_empty() {
                        ctx.tally("no-result");
                        continue;
                    }
                    match r {
                        Ok(Ok(got)) => {
                            if got != want {
                                viol(ctx, format!("C04 roundtrip {}", super::wirecheck::diff_field(&got, &want)), format!("encoded as {}, decoded {got:?}, expected {want:?}", hex(&b[..b.len().min(24)])));
                            } else if obs.remaining != 0 {
                                viol(ctx, "C04 roundtrip reader-not-empty".into(), format!("{} octets left", obs.remaining));
                            }
                        }
                        Ok(Err(e)) => viol(ctx, format!("C04 roundtrip rejected {}", format!("{:?}", e.first()).replace("Some(", "").split('(').next().unwrap_or("")), format!("own encoding {} rejected with {e:?} under options {opts:03b}", hex(&b[..b.len().min(24)]))),
                        Err(p) => viol(ctx, format!("C04 roundtrip decode-panics {}", p.0), format!("{}: {}", p.0, p.1)),
                    }
                }
            }
            ctx.guard(match (length.is_some(), ns_nr.is_some(), offset.is_some(), *prio) {
                (true, _, _, _) => "data-L",
                (_, true, _, _) => "data-S",
                (_, _, true, _) => "data-O",
                (_, _, _, true) => "data-P",
                _ => "data-plain",
            });
            ctx.tally("data-roundtrip");
        }
        _ => (),
    }
    ctx.note_nontrivial(fnv(format!("{:?}{:?}{:?}{:?}{:?}{:?}{}", prio, length, tid, sid, ns_nr, offset, data.len()).as_bytes(), 5));
    ctx.sample(|| msg_json(m));
}

fn check_hide_oversize(ctx: &mut Ctx, n: usize) {
    // original AVP of 6+n octets
    let a = SAvp::Plain { attr: 7, val: SVal::Bytes(ramp(n)) };
    let c = bridge::avp_to_crate(&a).unwrap();
    let rv = rl2tp::avp::types::RandomVector::from([1, 2, 3, 4]);
    let r = guarded(|| c.hide(b"secret", &rv, &[], &[0u8; 16]));
    let too_long = 6 + n > 1023;
    match (r, too_long) {
        (Ok(h), true) => ctx.violation(
            "C07 hide-oversize-returns".into(),
            format!("hiding an AVP of {} octets returned {} hidden octets instead of failing", 6 + n, h.get_length()),
            n,
            || json!({"kind":"hide-oversize","n":n}),
        ),
        (Err(_), true) => ctx.guard("hide-oversize-refused"),
        (Err(p), false) => ctx.violation("C07 hide-in-range-panics".into(), format!("{}: {}", p.0, p.1), n, || json!({"kind":"hide-oversize","n":n})),
        (Ok(_), false) => (),
    }
    ctx.tally("hide-size");
}

fn big_control(n_max: usize, filler: usize) -> SMessage {
    let mut avps = vec![SAvp::Plain { attr: 0, val: SVal::MessageType(1) }];
    for _ in 0..n_max {
        avps.push(SAvp::Plain { attr: 7, val: SVal::Bytes(ramp(1017)) });
    }
    if filler > 0 {
        avps.push(SAvp::Plain { attr: 11, val: SVal::Bytes(ramp(filler)) });
    }
    SMessage::Control {
        length: 0,
        tid: gen::TID,
        sid: gen::SID,
        ns: gen::NS,
        nr: gen::NR,
        avps,
    }
}

fn ctl(tid: u16, sid: u16, ns: u16, nr: u16, length: u16, avps: Vec<SAvp>) -> SMessage {
    SMessage::Control { length, tid, sid, ns, nr, avps }
}

pub fn run_values(ctx: &mut Ctx) {
    let which = which_of(ctx);
    let tier = ctx.tier;
    ctx.nontrivial_mod = 1;
    let domain_only = which == Which::C03 || which == Which::C09;
    if which != Which::C04 {
        // single AVPs
        for attr in spec::ALL_ATTRS {
            ctx.states += 1;
            ctx.transitions += 1;
            for a in vgen::avp_values(attr, domain_only, true) {
                if !ctx.mine() {
                    continue;
                }
                ctx.states += 1;
                ctx.transitions += 1;
                let desc = || avp_json(&a);
                ctx.case(&desc, |ctx| check_avp(ctx, &a));
            }
        }
        for a in vgen::hidden_values(domain_only, true) {
            if !ctx.mine() {
                continue;
            }
            ctx.states += 1;
            ctx.transitions += 1;
            let desc = || avp_json(&a);
            ctx.case(&desc, |ctx| check_avp(ctx, &a));
        }
        if tier.thorough() && which != Which::C09 {
            // all 2^32 words of each 32-bit kind, one case per 65 536-word block (the debug-
            // assertions profile takes every 16th block plus the first 256)
            let chk = cfg!(debug_assertions);
            for attr in [3u16, 4, 15, 16, 17, 18, 19, 24, 38] {
                let bits = matches!(attr, 3 | 4 | 18 | 19);
                for block in 0..(1u32 << 16) {
                    if !ctx.mine() {
                        continue;
                    }
                    if chk && block >= 256 && block % 16 != 0 {
                        continue;
                    }
                    ctx.states += 1 + (1 << 16);
                    ctx.transitions += 1 + (1 << 16);
                    let base = block << 16;
                    let desc = || json!({"kind":"block32","attr":attr,"base":base});
                    ctx.case(&desc, |ctx| {
                        for lo in 0..(1u32 << 16) {
                            let w = base | lo;
                            let a = SAvp::Plain { attr, val: if bits { SVal::Bits(w) } else { SVal::U32(w) } };
                            check_avp_fast(ctx, &a);
                        }
                        ctx.executions += (1 << 16) - 1;
                    });
                    ctx.note_nontrivial(fnv(&base.to_be_bytes(), attr as u64));
                }
            }
        }
        // control messages: header fields
        let mt = SAvp::Plain { attr: 0, val: SVal::MessageType(1) };
        for (tid, sid, ns, nr) in [(gen::TID, gen::SID, gen::NS, gen::NR), (0, 0, 0, 0), (0xffff, 0xffff, 0xffff, 0xffff), (0xffff, 0, 0, 0), (0, 0xffff, 0, 0), (0, 0, 0xffff, 0), (0, 0, 0, 0xffff)] {
            for length in [0u16, 20, 0xffff] {
                for avps in [vec![], vec![mt.clone()]] {
                    if !ctx.mine() {
                        continue;
                    }
                    ctx.states += 1;
                    ctx.transitions += 1;
                    let m = ctl(tid, sid, ns, nr, length, avps);
                    let desc = || msg_json(&m);
                    ctx.case(&desc, |ctx| check_control(ctx, &m, &desc));
                }
            }
        }
        // every 16-bit value of each header field (complete)
        for field in 0..4 {
            for x in 0..=0xffffu32 {
                if !ctx.mine() {
                    continue;
                }
                ctx.states += 1;
                ctx.transitions += 1;
                let mut f = [gen::TID, gen::SID, gen::NS, gen::NR];
                f[field] = x as u16;
                let m = ctl(f[0], f[1], f[2], f[3], 0, vec![mt.clone()]);
                let desc = || msg_json(&m);
                ctx.case(&desc, |ctx| check_control(ctx, &m, &desc));
            }
        }
        // AVP lists: all pairs over the menu, all triples (quadruples) over the sub-menu, with a
        // Message Type first and as is
        let menu = vgen::list_menu();
        for i in 0..menu.len() {
            for j in 0..menu.len() {
                if !ctx.mine() {
                    continue;
                }
                for lead in [true, false] {
                    ctx.states += 1;
                    ctx.transitions += 1;
                    let mut avps = if lead { vec![mt.clone()] } else { vec![] };
                    avps.push(menu[i].clone());
                    avps.push(menu[j].clone());
                    let m = ctl(gen::TID, gen::SID, gen::NS, gen::NR, 0, avps);
                    let desc = || msg_json(&m);
                    ctx.case(&desc, |ctx| check_control(ctx, &m, &desc));
                }
            }
        }
        let sm = vgen::short_menu();
        let depth = if tier.thorough() { 4 } else { 3 };
        for k in 3..=depth {
            let total = sm.len().pow(k as u32);
            for t in 0..total {
                if !ctx.mine() {
                    continue;
                }
                ctx.states += 1;
                ctx.transitions += 1;
                let mut avps = vec![mt.clone()];
                let mut x = t;
                for _ in 0..k {
                    avps.push(sm[x % sm.len()].clone());
                    x /= sm.len();
                }
                let m = ctl(gen::TID, gen::SID, gen::NS, gen::NR, 0, avps);
                let desc = || msg_json(&m);
                ctx.case(&desc, |ctx| check_control(ctx, &m, &desc));
            }
        }
        // long AVP lists (menu cycled) and totals octet by octet across 255/256/257
        for n in [5usize, 8, 9, 16, 17, 32, 33, 64, 65, 100, 255, 256, 257, 300] {
            if !ctx.mine() {
                continue;
            }
            ctx.states += 1;
            ctx.transitions += 1;
            let mut avps = vec![mt.clone()];
            avps.extend((0..n).map(|i| menu[(i * 7 + 1) % 39].clone()));
            let m = ctl(gen::TID, gen::SID, gen::NS, gen::NR, 0, avps);
            let desc = || json!({"kind":"longlist","n":n});
            ctx.case(&desc, |ctx| check_control(ctx, &m, &desc));
        }
        // the same AVP repeated k times (many small records in one body)
        for (mi, a) in menu.iter().enumerate() {
            for k in [4usize, 5, 8, 16, 64] {
                if !ctx.mine() {
                    continue;
                }
                if spec::payload_of(a).len() > 300 {
                    continue;
                }
                ctx.states += 1;
                ctx.transitions += 1;
                let mut avps = vec![mt.clone()];
                avps.extend(std::iter::repeat(a.clone()).take(k));
                let m = ctl(gen::TID, gen::SID, gen::NS, gen::NR, 0, avps);
                let desc = || json!({"kind":"repeated","menu_index":mi,"k":k});
                ctx.case(&desc, |ctx| check_control(ctx, &m, &desc));
            }
        }
        for filler in (1..=60usize).chain(280..=300).chain(536..=560).chain(790..=820) {
            if !ctx.mine() {
                continue;
            }
            ctx.states += 1;
            ctx.transitions += 1;
            // 12 + 8 + 200 + (6 + filler): 226 + filler covers 227..=286
            let m = ctl(gen::TID, gen::SID, gen::NS, gen::NR, 0, vec![mt.clone(), SAvp::Plain { attr: 7, val: SVal::Bytes(ramp(194)) }, SAvp::Plain { attr: 11, val: SVal::Bytes(ramp(filler)) }]);
            let desc = || msg_json(&m);
            ctx.case(&desc, |ctx| check_control(ctx, &m, &desc));
        }
        // message totals octet by octet across the 65535 limit: 12 + 8 + 63*1023 = 64469; a
        // 64th maximal AVP gives 65492; fillers of 7.. octets step through 65529..65550
        for filler in 0..=70usize {
            if !ctx.mine() {
                continue;
            }
            ctx.states += 1;
            ctx.transitions += 1;
            let m = big_control(64, filler);
            let desc = || json!({"kind":"bigctl","n_max":64,"filler":filler});
            ctx.case(&desc, |ctx| check_control(ctx, &m, &desc));
        }
        if which == Which::C07 {
            for n in [0usize, 1, 1000, 1015, 1016, 1017, 1018, 1019, 1024, 2000, 65_530, 70_000] {
                if !ctx.mine() {
                    continue;
                }
                ctx.states += 1;
                ctx.transitions += 1;
                let desc = || json!({"kind":"hide-oversize","n":n});
                ctx.case(&desc, |ctx| check_hide_oversize(ctx, n));
            }
        }
    }
    if which == Which::C04 || which == Which::C06 || which == Which::C09 {
        // every 16-bit value of every data-message field, one field at a time (complete per field)
        for field in 0..6 {
            for x in 0..=0xffffu32 {
                if !ctx.mine() {
                    continue;
                }
                let x = x as u16;
                let (mut tid, mut sid, mut ns, mut nr) = (gen::TID, gen::SID, gen::NS, gen::NR);
                let mut offset = None;
                let mut length = None;
                let mut data = ramp(5);
                match field {
                    0 => tid = x,
                    1 => sid = x,
                    2 => ns = x,
                    3 => nr = x,
                    4 => {
                        // offset size x with exactly x padding octets and 2 payload octets
                        offset = Some(x);
                        data = ramp(x as usize + 2);
                    }
                    _ => {
                        // length field = true size, every size 15..=65535 that fits
                        if x < 15 {
                            continue;
                        }
                        length = Some(x);
                        data = ramp(x as usize - 14);
                    }
                }
                if field == 4 && x as usize + 2 + 12 > 70_000 {
                    continue;
                }
                ctx.states += 1;
                ctx.transitions += 1;
                let m = SMessage::Data {
                    prio: x & 1 == 1,
                    length,
                    tid,
                    sid,
                    ns_nr: Some((ns, nr)),
                    offset,
                    data,
                };
                let desc = || msg_json(&m);
                ctx.case(&desc, |ctx| check_data(ctx, &m));
            }
        }
        for prio in [false, true] {
            for ids in [(gen::TID, gen::SID), (0, 0), (0xffff, 0xffff), (0, 0xffff)] {
                for ns_nr in [None, Some((gen::NS, gen::NR)), Some((0xffff, 0)), Some((0, 0xffff))] {
                    for plen in [1usize, 2, 3, 16, 1500, 65_523] {
                        if !ctx.mine() {
                            continue;
                        }
                        ctx.states += 1;
                        ctx.transitions += 1;
                        // payload contents: distinct octets; all zero; all ff; octets that look
                        // like a control header followed by zeros (selected by the id variant so
                        // that the product does not grow)
                        let data: Vec<u8> = match (ids.0, plen) {
                            (0, _) => vec![0u8; plen],
                            (0xffff, _) => vec![0xffu8; plen],
                            (_, n) if ids.1 == 0xffff => {
                                let mut d = vec![0u8; n];
                                for (i, b) in [0xc8u8, 0x02, 0x00, 0x0c].iter().enumerate() {
                                    if i < n {
                                        d[i] = *b;
                                    }
                                }
                                d
                            }
                            _ => ramp(plen),
                        };
                        let offsets: Vec<Option<u16>> = vec![None, Some(0), Some(1), Some((plen - 1) as u16), Some(plen.min(0xffff) as u16), Some(0xffff)];
                        for offset in offsets {
                            for lsel in 0..3 {
                                let hdr = 2 + 4 + if lsel > 0 { 2 } else { 0 } + if ns_nr.is_some() { 4 } else { 0 } + if offset.is_some() { 2 } else { 0 };
                                let total = hdr + plen;
                                let length = match lsel {
                                    0 => None,
                                    1 => {
                                        if total > 0xffff {
                                            continue;
                                        }
                                        Some(total as u16)
                                    }
                                    _ => Some(7),
                                };
                                let m = SMessage::Data {
                                    prio,
                                    length,
                                    tid: ids.0,
                                    sid: ids.1,
                                    ns_nr,
                                    offset,
                                    data: data.clone(),
                                };
                                ctx.states += 1;
                                ctx.transitions += 1;
                                let desc = || msg_json(&m);
                                ctx.case(&desc, |ctx| check_data(ctx, &m));
                            }
                        }
                    }
                }
            }
        }
    }
}

/// 2^32 sweeps: the same checks without per-case bookkeeping
fn check_avp_fast(ctx: &mut Ctx, a: &SAvp) {
    let which = which_of_fast(&ctx.prop);
    let Some(c) = bridge::avp_to_crate(a) else { return };
    let mut w = VecWriter { data: Vec::with_capacity(10) };
    c.write(&mut w);
    let b = w.data;
    let (attr, word) = match a {
        SAvp::Plain { attr, val: SVal::Bits(x) } | SAvp::Plain { attr, val: SVal::U32(x) } => (*attr, *x),
        _ => return,
    };
    // specified octets of a 32-bit AVP: M bit, length 10, vendor 0, attribute, big-endian word
    let wb = word.to_be_bytes();
    let sp: [u8; 10] = [0x01, 0x0a, 0, 0, (attr >> 8) as u8, attr as u8, wb[0], wb[1], wb[2], wb[3]];
    let bad = match which {
        Which::C06 => b[..] != sp[..],
        Which::C07 => walker_avp_len(&b) != b.len() || 6 + c.get_length() != b.len(),
        Which::C03 => {
            let mut r = rl2tp::common::SliceReader::from(&b[..]);
            let v = rl2tp::avp::AVP::try_read_greedy(&mut r);
            v.len() != 1 || v[0].as_ref().ok() != Some(&c)
        }
        Which::C04 | Which::C09 => false,
    };
    if bad {
        ctx.violation(
            format!("{} sweep32 attr{}", ctx.prop.clone(), a.attr()),
            format!("value {a:?}: encoder emitted {}, specified {}", hex(&b), hex(&sp)),
            0,
            || avp_json(a),
        );
    }
}

fn which_of_fast(p: &str) -> Which {
    match p {
        "C03" => Which::C03,
        "C04" => Which::C04,
        "C06" => Which::C06,
        "C09" => Which::C09,
        _ => Which::C07,
    }
}

pub fn replay_values(ctx: &mut Ctx, v: &Value) {
    match v["kind"].as_str() {
        Some("avp") => {
            let Some(a) = SAvp::from_json(&v["avp"]) else {
                eprintln!("machinery: bad avp in replay case");
                std::process::exit(2);
            };
            let desc = || avp_json(&a);
            ctx.case(&desc, |ctx| check_avp(ctx, &a));
        }
        Some("msg") => {
            let Some(m) = SMessage::from_json(&v["msg"]) else {
                eprintln!("machinery: bad msg in replay case");
                std::process::exit(2);
            };
            let desc = || msg_json(&m);
            match &m {
                SMessage::Control { .. } => ctx.case(&desc, |ctx| check_control(ctx, &m, &desc)),
                SMessage::Data { .. } => ctx.case(&desc, |ctx| check_data(ctx, &m)),
            };
        }
        Some("repeated") => {
            let menu = vgen::list_menu();
            let a = menu[v["menu_index"].as_u64().unwrap_or(0) as usize % menu.len()].clone();
            let k = v["k"].as_u64().unwrap_or(4) as usize;
            let mut avps = vec![SAvp::Plain { attr: 0, val: SVal::MessageType(1) }];
            avps.extend(std::iter::repeat(a).take(k));
            let m = ctl(gen::TID, gen::SID, gen::NS, gen::NR, 0, avps);
            let desc = || v.clone();
            ctx.case(&desc, |ctx| check_control(ctx, &m, &desc));
        }
        Some("longlist") => {
            let n = v["n"].as_u64().unwrap_or(5) as usize;
            let menu = vgen::list_menu();
            let mut avps = vec![SAvp::Plain { attr: 0, val: SVal::MessageType(1) }];
            avps.extend((0..n).map(|i| menu[(i * 7 + 1) % 39].clone()));
            let m = ctl(gen::TID, gen::SID, gen::NS, gen::NR, 0, avps);
            let desc = || v.clone();
            ctx.case(&desc, |ctx| check_control(ctx, &m, &desc));
        }
        Some("block32") => {
            let attr = v["attr"].as_u64().unwrap_or(3) as u16;
            let base = v["base"].as_u64().unwrap_or(0) as u32;
            let bits = matches!(attr, 3 | 4 | 18 | 19);
            let desc = || v.clone();
            ctx.case(&desc, |ctx| {
                for lo in 0..(1u32 << 16) {
                    let w = base | lo;
                    let a = SAvp::Plain { attr, val: if bits { SVal::Bits(w) } else { SVal::U32(w) } };
                    check_avp_fast(ctx, &a);
                }
            });
        }
        Some("bigctl") => {
            let n_max = v["n_max"].as_u64().unwrap_or(64) as usize;
            let filler = v["filler"].as_u64().unwrap_or(0) as usize;
            let m = big_control(n_max, filler);
            let desc = || json!({"kind":"bigctl","n_max":n_max,"filler":filler});
            ctx.case(&desc, |ctx| check_control(ctx, &m, &desc));
        }
        Some("hide-oversize") => {
            let n = v["n"].as_u64().unwrap_or(0) as usize;
            let desc = || json!({"kind":"hide-oversize","n":n});
            ctx.case(&desc, |ctx| check_hide_oversize(ctx, n));
        }
        _ => {
            eprintln!("machinery: bad replay case");
            std::process::exit(2);
        }
    }
    let _ = dec_msg;
}
