//! C11 (hide then reveal is the identity), C12 (hidden value equals the RFC 2661 §4.3
//! construction computed independently), C13 (revealing is total).

use super::errs::dec_avps;
use super::*;
use crate::bridge;
use crate::ctx::{fnv, guarded, Ctx};
use crate::gen::{payload_for, ramp, Content};
use crate::spec::{self, hex, unhex, RevealRej, SAvp, SVal};
use crate::vgen;
use rl2tp::avp::types::RandomVector;
use rl2tp::avp::AVP;
use rl2tp::common::{DecodeError, VecWriter};
use serde_json::{json, Value};

pub fn defs() -> Vec<PropDef> {
    let mk = |id: &'static str, rule: &'static str, post: fn(Tier, &Guards, &Guards) -> Result<(), String>, run: fn(&mut Ctx), replay: fn(&mut Ctx, &Value)| PropDef {
        id,
        profiles: BOTH,
        shards: sixteen,
        run,
        replay,
        post,
        rule,
        bounds: |t| {
            json!({
                "kinds": "all 39 non-hidden kinds (canonical value) + Host Name payloads of every length 0..=48 (1-4 blocks, every residue), lengths giving 5..13, 16 and 32 blocks, and 990..=1006 (63 blocks)",
                "secrets_octets": [0, 1, 6, 15, 16, 17, 38, 39, 40, 55, 64, 65, 100, 200],
                "random_vectors": ["00000000", "deadbeef", "ffffffff"],
                "length_padding_octets": "0..=33, 64, 100, 255, 256, 500 and up to the 1008-octet limit",
                "alignment_padding": ["ramp", "zero", "ff"],
                "reveal_space": {"attribute_types": "0..=41,255,65535", "blocks": [1,2,3,63], "misaligned_lengths": [0,1,15,17,31,33,1017],
                                 "original_length_field": if t.thorough() { "all 65536 values for every attribute type and block count" } else { "all 65536 values x 45 attribute types x 1..3 blocks (valid content, right key); boundary values for the other dimensions" }},
            })
        },
        assumptions: COMMON_ASSUMPTIONS,
        fd_monitor: false,
        mem_gb: mem4,
        watchdog_s: wd,
        deadline_s: no_deadline,
    };
    vec![
        mk(
            "C11",
            "ENUM product over the hide space: every non-hidden kind x payload sizes giving 1,2,3,4 and 63 blocks and every residue mod 16 x secrets x random vectors x length paddings x alignment paddings inside 2+|payload|+|lp| <= 1008; reveal(hide(a)) = Ok(a) directly and after write -> try_read_greedy; hide is the identity on hidden AVPs and reveal on non-hidden ones. Non-trivial: every case (distinct parameter tuples).",
            |_, g, _| {
                for k in ["blocks-1", "blocks-2", "blocks-3", "blocks-4", "blocks-63", "no-alignment-padding", "empty-secret", "empty-length-padding", "identity-hidden", "identity-plain"] {
                    if !g.contains_key(k) {
                        return Err(format!("C11 guard {k} never hit"));
                    }
                }
                Ok(())
            },
            run_hide,
            replay_hide,
        ),
        mk(
            "C12",
            "the hide space of C11 (hidden value = reference construction with its own MD5, length = 16*ceil((2+|payload|+|lp|)/16), attribute type in clear, H bit on the wire, deterministic) and the reveal space of C13 (reveal(h) = reference reveal, value or rejection). Non-trivial: every case.",
            |_, g, _| {
                for k in ["blocks-1", "blocks-2", "blocks-3", "blocks-4", "blocks-63", "secret-crosses-md5-padding-boundary", "reveal-accepts", "reveal-rejects"] {
                    if !g.contains_key(k) {
                        return Err(format!("C12 guard {k} never hit"));
                    }
                }
                Ok(())
            },
            run_hide,
            replay_hide,
        ),
        mk(
            "C13",
            "ENUM product over the reveal space: ciphertexts are manufactured from chosen plaintexts with the reference key stream so that the decrypted original-length field takes each value exactly; attribute types x block counts x misaligned lengths x every value of the length field x payload content classes x secrets x right and wrong key; no panic/abort, Ok implies the announced attribute type, empty / misaligned / inconsistent lengths are rejected, result equals the reference reveal. Non-trivial: the value is non-empty and a multiple of 16 octets (the decryption path runs).",
            |_, g, _| {
                for k in ["reveal-empty", "reveal-misaligned", "length-below-6", "length-above-1023", "length-beyond-value", "length-fits", "reveal-ok", "wrong-key"] {
                    if !g.contains_key(k) {
                        return Err(format!("C13 guard {k} never hit"));
                    }
                }
                Ok(())
            },
            run_reveal,
            replay_reveal,
        ),
    ]
}

const RVS: [[u8; 4]; 3] = [[0, 0, 0, 0], [0xde, 0xad, 0xbe, 0xef], [0xff, 0xff, 0xff, 0xff]];
const SECRET_LENS: [usize; 14] = [6, 0, 1, 15, 16, 17, 38, 39, 40, 55, 64, 65, 100, 200];

fn secret(n: usize) -> Vec<u8> {
    (0..n).map(|i| (0x41 + (i * 5) % 57) as u8).collect()
}

/// a second secret of the same length with different octets (anything keyed by the length or a
/// prefix of the secret alone would confuse the two)
/// a third secret: NUL first, octets >= 0x80, 0xff last
fn secret_c(n: usize) -> Vec<u8> {
    (0..n).map(|i| if i == 0 { 0 } else if i + 1 == n { 0xff } else { 0x80 | (i as u8 & 0x3f) }).collect()
}

fn secret_b(n: usize) -> Vec<u8> {
    (0..n).map(|i| if i + 1 == n { 0x7a } else { (0x41 + (i * 5) % 57) as u8 }).collect()
}

fn ap_of(k: u32) -> [u8; 16] {
    match k {
        0 | 3 | 4 | 5 | 6 => ramp(16).try_into().unwrap(),
        1 => [0u8; 16],
        _ => [0xffu8; 16],
    }
}

#[derive(Clone, Debug)]
struct HideCase {
    avp: SAvp,
    secret_len: usize,
    rv: usize,
    lp_len: usize,
    ap: u32,
}

thread_local! {
    /// the case executed just before the current one in this worker: stored with a violation so
    /// that a result that depends on the previous call can be replayed (and is reported as a
    /// verdict of this property instead of an unreproducible observation)
    static PREV_HIDE: std::cell::RefCell<Option<HideCase>> = const { std::cell::RefCell::new(None) };
    static PREV_REVEAL: std::cell::RefCell<Option<RevealCase>> = const { std::cell::RefCell::new(None) };
    /// the first case this worker executed (state set up by the very first call, e.g. a cache
    /// that is never refreshed, is reproduced by replaying it before the failing case)
    static FIRST_HIDE: std::cell::RefCell<Option<HideCase>> = const { std::cell::RefCell::new(None) };
    static FIRST_REVEAL: std::cell::RefCell<Option<RevealCase>> = const { std::cell::RefCell::new(None) };
}

fn hide_json_plain(h: &HideCase) -> Value {
    json!({"kind":"hide","avp":h.avp.to_json(),"secret_len":h.secret_len,"rv":h.rv,"lp_len":h.lp_len,"ap":h.ap})
}

fn hide_json(h: &HideCase) -> Value {
    let mut v = hide_json_plain(h);
    if let Some(p) = PREV_HIDE.with(|p| p.borrow().clone()) {
        v["previous_call"] = hide_json_plain(&p);
    }
    if let Some(p) = FIRST_HIDE.with(|p| p.borrow().clone()) {
        v["first_call"] = hide_json_plain(&p);
    }
    v
}

fn check_hide(ctx: &mut Ctx, h: &HideCase) {
    check_hide_inner(ctx, h);
    PREV_HIDE.with(|p| *p.borrow_mut() = Some(h.clone()));
    FIRST_HIDE.with(|p| {
        if p.borrow().is_none() {
            *p.borrow_mut() = Some(h.clone());
        }
    });
}

fn check_hide_inner(ctx: &mut Ctx, h: &HideCase) {
    let c12 = ctx.prop == "C12";
    let Some(c) = bridge::avp_to_crate(&h.avp) else { return };
    // ap >= 3 selects the second secret of that length (with the ramp alignment padding)
    let sec = match h.ap {
        3 | 5 => secret_b(h.secret_len),
        4 | 6 => secret_c(h.secret_len),
        _ => secret(h.secret_len),
    };
    let rv = RandomVector::from(RVS[h.rv]);
    // length padding contents: distinct octets; all zero (ap 5: what a "strip trailing zeros"
    // heuristic would eat); copies of the value's last octet (ap 6)
    let last = spec::payload_of(&h.avp).last().copied().unwrap_or(0);
    let lp: Vec<u8> = match h.ap {
        5 => vec![0u8; h.lp_len],
        6 => vec![last; h.lp_len],
        _ => (0..h.lp_len).map(|i| (0x90 + i % 100) as u8).collect(),
    };
    let ap = ap_of(h.ap);
    let plen = spec::payload_of(&h.avp).len();
    let size = plen + h.lp_len + h.secret_len;
    let prop = ctx.prop.clone();
    let viol = |ctx: &mut Ctx, sig: String, detail: String| {
        ctx.violation(format!("{prop} {sig}"), detail, size, || hide_json(h));
    };
    if let SAvp::Hidden { .. } = &h.avp {
        // hide is the identity on hidden AVPs
        match guarded(|| c.clone().hide(&sec, &rv, &lp, &ap)) {
            Ok(x) => {
                if bridge::avp_to_spec(&x) != h.avp {
                    viol(ctx, "hide-changes-hidden-avp".into(), format!("hide({:?}) = {:?}", h.avp, bridge::avp_to_spec(&x)));
                }
            }
            Err(p) => viol(ctx, format!("hide-panics {}", p.0), p.1),
        }
        ctx.guard("identity-hidden");
        ctx.tally("identity-hidden");
        return;
    }
    // reveal is the identity on non-hidden AVPs
    match guarded(|| c.clone().reveal(&sec, &rv)) {
        Ok(Ok(x)) => {
            if bridge::avp_to_spec(&x) != h.avp {
                viol(ctx, "reveal-changes-plain-avp".into(), format!("reveal({:?}) = {:?}", h.avp, bridge::avp_to_spec(&x)));
            }
        }
        Ok(Err(e)) => viol(ctx, "reveal-rejects-plain-avp".into(), format!("{e:?}")),
        Err(p) => viol(ctx, format!("reveal-panics {}", p.0), p.1),
    }
    ctx.guard("identity-plain");
    let blocks = (2 + plen + h.lp_len + 15) / 16;
    ctx.guard(match blocks {
        1 => "blocks-1",
        2 => "blocks-2",
        3 => "blocks-3",
        4 => "blocks-4",
        63 => "blocks-63",
        _ => "blocks-other",
    });
    if (2 + plen + h.lp_len) % 16 == 0 {
        ctx.guard("no-alignment-padding");
    }
    if h.secret_len == 0 {
        ctx.guard("empty-secret");
    }
    if h.lp_len == 0 {
        ctx.guard("empty-length-padding");
    }
    if (38..=40).contains(&h.secret_len) {
        ctx.guard("secret-crosses-md5-padding-boundary");
    }
    let hidden = match guarded(|| c.clone().hide(&sec, &rv, &lp, &ap)) {
        Ok(x) => x,
        Err(p) => {
            viol(ctx, format!("hide-panics {}", p.0), format!("{}: {}", p.0, p.1));
            return;
        }
    };
    let hs = bridge::avp_to_spec(&hidden);
    if c12 {
        let want = spec::hide(&h.avp, &sec, &RVS[h.rv], &lp, &ap).expect("in range");
        if hs != want {
            let what = match (&hs, &want) {
                (SAvp::Hidden { attr: a1, value: v1 }, SAvp::Hidden { attr: a2, value: v2 }) => {
                    if a1 != a2 {
                        "attribute-type".to_string()
                    } else if v1.len() != v2.len() {
                        "length".to_string()
                    } else {
                        let b = v1.iter().zip(v2.iter()).position(|(x, y)| x != y).unwrap_or(0) / 16;
                        format!("block{}", b.min(3))
                    }
                }
                _ => "not-hidden".to_string(),
            };
            viol(ctx, format!("hidden-value-differs {what}"), format!("hide gives {:?}, RFC 2661 §4.3 gives {:?}", short(&hs), short(&want)));
        }
        if let SAvp::Hidden { value, .. } = &hs {
            if value.len() != 16 * ((2 + plen + h.lp_len + 15) / 16) {
                viol(ctx, "hidden-length".into(), format!("{} octets for payload {} + padding {}", value.len(), plen, h.lp_len));
            }
        }
        // wire form: H bit set, attribute type in clear
        let mut w = VecWriter::new();
        if guarded(|| hidden.write(&mut w)).is_ok() && w.data.len() >= 6 {
            if w.data[0] & 0x02 == 0 {
                viol(ctx, "wire-without-H-bit".into(), format!("first octet {:02x}", w.data[0]));
            }
            if w.data[4..6] != h.avp.attr().to_be_bytes() {
                viol(ctx, "wire-attribute-type".into(), format!("attribute type on the wire {}", hex(&w.data[4..6])));
            }
        }
        // deterministic
        if let Ok(again) = guarded(|| c.clone().hide(&sec, &rv, &lp, &ap)) {
            if again != hidden {
                viol(ctx, "hide-not-deterministic".into(), "two calls with the same arguments differ".into());
            }
        }
    } else {
        // C11
        match guarded(|| hidden.clone().reveal(&sec, &rv)) {
            Ok(Ok(x)) => {
                let xs = bridge::avp_to_spec(&x);
                if xs != h.avp {
                    viol(ctx, format!("roundtrip-value blocks{}", blocks.min(5)), format!("reveal(hide(a)) = {:?}, a = {:?}", short(&xs), short(&h.avp)));
                }
            }
            Ok(Err(e)) => viol(ctx, format!("roundtrip-rejected blocks{}", blocks.min(5)), format!("reveal(hide(a)) = Err({e:?}) for a = {:?}", short(&h.avp))),
            Err(p) => viol(ctx, format!("reveal-panics {}", p.0), format!("{}: {}", p.0, p.1)),
        }
        // through the wire
        let mut w = VecWriter::new();
        match guarded(|| hidden.write(&mut w)) {
            Err(p) => viol(ctx, format!("hidden-write-panics {}", p.0), p.1),
            Ok(()) => match dec_avps(&w.data) {
                Some(v) if v.len() == 1 && v[0].is_ok() => {
                    let back = bridge::avp_to_crate(v[0].as_ref().unwrap()).unwrap();
                    match guarded(|| back.reveal(&sec, &rv)) {
                        Ok(Ok(x)) => {
                            if bridge::avp_to_spec(&x) != h.avp {
                                viol(ctx, "roundtrip-through-wire".into(), format!("got {:?}", short(&bridge::avp_to_spec(&x))));
                            }
                        }
                        other => viol(ctx, "roundtrip-through-wire-rejected".into(), format!("{other:?}")),
                    }
                }
                other => viol(ctx, "hidden-avp-does-not-decode".into(), format!("{other:?}")),
            },
        }
    }
    ctx.tally(&format!("blocks-{}", if blocks > 4 { 63.min(blocks) } else { blocks }));
    ctx.note_nontrivial(fnv(format!("{:?}", h).as_bytes(), 11));
    ctx.sample(|| hide_json(h));
}

fn short(a: &SAvp) -> String {
    let s = format!("{a:?}");
    if s.len() > 300 {
        format!("{}…", &s[..300])
    } else {
        s
    }
}

fn run_hide(ctx: &mut Ctx) {
    let tier = ctx.tier;
    let mut cases: Vec<SAvp> = spec::ALL_ATTRS.iter().map(|a| vgen::canonical(*a)).collect();
    for n in (0..=48).chain([50usize, 62, 63, 66, 78, 79, 82, 98, 114, 130, 146, 162, 178, 194, 250, 506]).chain(990..=1006) {
        cases.push(SAvp::Plain { attr: 7, val: SVal::Bytes(ramp(n)) });
    }
    cases.push(SAvp::Plain { attr: 8, val: SVal::Str(vgen::utf8_of_len(30)) });
    cases.push(SAvp::Plain { attr: 1, val: SVal::ResultCode { code: 1, error: None } });
    cases.push(SAvp::Hidden { attr: 7, value: ramp(16) });
    cases.push(SAvp::Hidden { attr: 9, value: vec![] });
    let lp_all: Vec<usize> = (0..=33).collect();
    for a in &cases {
        // C11 quantifies over AVPs that are decodable at all (same domain as C03: variable-length
        // payloads non-empty); C12 keeps the others, the construction is defined for them too
        if ctx.prop == "C11" && !vgen::payload_in_domain(a) {
            continue;
        }
        let plen = spec::payload_of(a).len();
        let room = 1008usize.saturating_sub(2 + plen);
        for (si, sl) in SECRET_LENS.iter().enumerate() {
            if !ctx.mine() {
                continue;
            }
            ctx.states += 1;
            ctx.transitions += 1;
            // full product for the default secret, deviation-bounded (one other dimension at a
            // time) for the others in quick; full product in thorough
            let full = si == 0 || tier.thorough();
            let mut lps: Vec<usize> = lp_all.iter().copied().filter(|l| *l <= room).collect();
            for extra in [64usize, 100, 255, 256, 500] {
                if extra <= room {
                    lps.push(extra);
                }
            }
            if room > 33 {
                lps.push(room);
                lps.push(room - 1);
                lps.push(room - 15);
                lps.push(room - 16);
            }
            for (ri, _) in RVS.iter().enumerate() {
                for &lp in &lps {
                    for ap in 0..7u32 {
                        let deviations = (ri != 0) as u32 + (ap != 0) as u32 + (lp != 0) as u32;
                        if !full && deviations > 1 {
                            continue;
                        }
                        ctx.states += 1;
                        ctx.transitions += 1;
                        let h = HideCase {
                            avp: a.clone(),
                            secret_len: *sl,
                            rv: ri,
                            lp_len: lp,
                            ap,
                        };
                        let desc = || hide_json(&h);
                        ctx.case(&desc, |ctx| check_hide(ctx, &h));
                    }
                }
            }
        }
    }
    // every secret length 0..=300 (MD5 block and padding boundaries of `type ++ secret ++ rv` and of
    // `secret ++ previous block`, buffers sized from either) on a one-, a three- and a
    // thirteen-block value, three secrets per length
    let sweep = [vgen::canonical(9), SAvp::Plain { attr: 7, val: SVal::Bytes(ramp(30)) }, SAvp::Plain { attr: 7, val: SVal::Bytes(ramp(200)) }];
    for a in &sweep {
        for sl in 0..=300usize {
            if !ctx.mine() {
                continue;
            }
            for lp in [0usize, 5] {
                for ap in [0u32, 3, 4] {
                    ctx.states += 1;
                    ctx.transitions += 1;
                    let h = HideCase {
                        avp: a.clone(),
                        secret_len: sl,
                        rv: 1,
                        lp_len: lp,
                        ap,
                    };
                    let desc = || hide_json(&h);
                    ctx.case(&desc, |ctx| check_hide(ctx, &h));
                }
            }
        }
    }
    // hide is the identity on hidden AVPs of any size (also those too large to be written)
    for n in [0usize, 1, 15, 17, 1008, 1016, 1017, 1018, 1024, 2000, 65_530] {
        for attr in [7u16, 0x1234] {
            if !ctx.mine() {
                continue;
            }
            for (sl, lp) in [(6usize, 0usize), (0, 5)] {
                ctx.states += 1;
                ctx.transitions += 1;
                let h = HideCase {
                    avp: SAvp::Hidden { attr, value: ramp(n) },
                    secret_len: sl,
                    rv: 1,
                    lp_len: lp,
                    ap: 0,
                };
                let desc = || hide_json(&h);
                ctx.case(&desc, |ctx| check_hide(ctx, &h));
            }
        }
    }
    if ctx.prop == "C12" {
        // reveal half of C12 = the reveal space
        run_reveal(ctx);
    }
}

fn replay_hide(ctx: &mut Ctx, v: &Value) {
    if v["kind"].as_str() == Some("reveal") {
        return replay_reveal(ctx, v);
    }
    let Some(avp) = SAvp::from_json(&v["avp"]) else {
        eprintln!("machinery: bad hide replay case");
        std::process::exit(2);
    };
    let parse = |v: &Value, avp: SAvp| HideCase {
        avp,
        secret_len: v["secret_len"].as_u64().unwrap_or(0) as usize,
        rv: v["rv"].as_u64().unwrap_or(0) as usize % 3,
        lp_len: v["lp_len"].as_u64().unwrap_or(0) as usize,
        ap: v["ap"].as_u64().unwrap_or(0) as u32,
    };
    let h = parse(v, avp);
    // the recorded earlier calls of the sweep first (its first and its previous call), then the
    // case itself: state left behind by earlier calls is part of what is replayed
    for key in ["first_call", "previous_call"] {
        if let Some(pa) = v.get(key).and_then(|p| SAvp::from_json(&p["avp"]).map(|a| parse(p, a))) {
            let mut scratch = Ctx::new(&ctx.prop, ctx.tier, 0, 1);
            check_hide(&mut scratch, &pa);
        }
    }
    let desc = || hide_json_plain(&h);
    ctx.case(&desc, |ctx| check_hide(ctx, &h));
}

// ---------------------------------------------------------------------------------------------
// reveal space

#[derive(Clone, Debug)]
struct RevealCase {
    attr: u16,
    /// hidden value length in octets
    vlen: usize,
    /// value of the decrypted original-length field (when the value is a whole number of blocks)
    lo: u16,
    content: u8,
    secret_len: usize,
    wrong_key: bool,
}

fn reveal_json_plain(r: &RevealCase) -> Value {
    json!({"kind":"reveal","attr":r.attr,"vlen":r.vlen,"lo":r.lo,"content":r.content,"secret_len":r.secret_len,"wrong_key":r.wrong_key})
}

fn reveal_json(r: &RevealCase) -> Value {
    let mut v = reveal_json_plain(r);
    if let Some(p) = PREV_REVEAL.with(|p| p.borrow().clone()) {
        v["previous_call"] = reveal_json_plain(&p);
    }
    if let Some(p) = FIRST_REVEAL.with(|p| p.borrow().clone()) {
        v["first_call"] = reveal_json_plain(&p);
    }
    v
}

fn build_cipher(r: &RevealCase) -> Vec<u8> {
    if r.vlen == 0 {
        return vec![];
    }
    let class = match r.content {
        0 => Content::Valid,
        1 => Content::Ramp,
        _ => Content::Overlong,
    };
    // plaintext: length field, then content for the announced type
    let mut p = Vec::with_capacity(r.vlen);
    p.extend_from_slice(&r.lo.to_be_bytes());
    let body_len = r.vlen.saturating_sub(2);
    let want = (r.lo as usize).saturating_sub(6).min(body_len);
    let mut body = payload_for(r.attr, want, class);
    body.resize(body_len, 0x5c);
    p.extend_from_slice(&body);
    p.truncate(r.vlen);
    if r.vlen % 16 != 0 {
        // misaligned: no decryption will happen, any octets do
        return p;
    }
    spec::encrypt(r.attr, &p, &secret(r.secret_len), &RVS[1])
}

fn check_reveal(ctx: &mut Ctx, r: &RevealCase) {
    check_reveal_inner(ctx, r);
    PREV_REVEAL.with(|p| *p.borrow_mut() = Some(r.clone()));
    FIRST_REVEAL.with(|p| {
        if p.borrow().is_none() {
            *p.borrow_mut() = Some(r.clone());
        }
    });
}

fn check_reveal_inner(ctx: &mut Ctx, r: &RevealCase) {
    let value = build_cipher(r);
    let hidden_s = SAvp::Hidden { attr: r.attr, value: value.clone() };
    let hidden = bridge::avp_to_crate(&hidden_s).unwrap();
    let sec = if r.wrong_key { secret(r.secret_len + 1) } else { secret(r.secret_len) };
    let rv = RandomVector::from(RVS[1]);
    let want = spec::reveal(&hidden_s, &sec, &RVS[1]);
    let prop = ctx.prop.clone();
    let viol = |ctx: &mut Ctx, sig: String, detail: String| {
        ctx.violation(format!("{prop} {sig}"), detail, r.vlen, || reveal_json(r));
    };
    if r.wrong_key {
        ctx.guard("wrong-key");
    }
    if value.is_empty() {
        ctx.guard("reveal-empty");
    } else if value.len() % 16 != 0 {
        ctx.guard("reveal-misaligned");
    } else if !r.wrong_key {
        ctx.guard(if r.lo < 6 {
            "length-below-6"
        } else if r.lo > 1023 {
            "length-above-1023"
        } else if (r.lo as usize - 6) > value.len() - 2 {
            "length-beyond-value"
        } else {
            "length-fits"
        });
    }
    let got = guarded(|| hidden.clone().reveal(&sec, &rv));
    if prop == "C02" {
        // C02 only asks that reveal's own reader is never asked for more than it holds: with
        // SliceReader such a request is a slice-range panic (or an abort in the unchecked reads)
        if let Err(p) = &got {
            viol(ctx, format!("reveal out-of-range-request {} {}", p.0, crate::ctx::panic_class(&p.1)), format!("reveal asked its internal reader for octets it does not hold: panic at {}: {}", p.0, p.1));
        }
        ctx.tally("reveal");
        if !value.is_empty() && value.len() % 16 == 0 {
            ctx.note_nontrivial(fnv(&value, r.attr as u64 * 4 + r.wrong_key as u64));
        }
        return;
    }
    // C13 states totality, the kind of an accepted result and three rejections; equality with the
    // reference reveal (which values are accepted, and with what value) is C12's clause
    let c13 = prop == "C13";
    match (&got, &want) {
        (Err(p), _) => {
            viol(ctx, format!("reveal-panics {} {}", p.0, crate::ctx::panic_class(&p.1)), format!("panic at {}: {}", p.0, p.1));
        }
        (Ok(Ok(a)), Ok(w)) => {
            ctx.guard("reveal-ok");
            ctx.guard("reveal-accepts");
            let s = bridge::avp_to_spec(a);
            if s != *w && !c13 {
                viol(ctx, format!("reveal-value attr{}", r.attr.min(99)), format!("revealed {:?}, reference {:?}", short(&s), short(w)));
            }
            if s.attr() != r.attr || s.is_hidden() {
                viol(ctx, "reveal-wrong-kind".into(), format!("announced attribute type {}, revealed {:?}", r.attr, short(&s)));
            }
        }
        (Ok(Err(_)), Err(_)) => {
            ctx.guard("reveal-rejects");
        }
        (Ok(Ok(a)), Err(rej)) => {
            let named = match rej {
                RevealRej::Empty | RevealRej::Misaligned => true,
                // "decrypted lengths that do not fit inside the decrypted value"
                RevealRej::OriginalLength(lo) => (*lo as usize) >= 6 && (*lo as usize - 6) > value.len().saturating_sub(2),
                RevealRej::Payload(_) => false,
            };
            let s = bridge::avp_to_spec(a);
            if c13 && (s.attr() != r.attr || s.is_hidden()) {
                viol(ctx, "reveal-wrong-kind".into(), format!("announced attribute type {}, revealed {:?}", r.attr, short(&s)));
            }
            if !c13 || named {
                viol(
                    ctx,
                    format!(
                        "reveal-accepts-specified-reject {}",
                        match rej {
                            RevealRej::Empty => "empty",
                            RevealRej::Misaligned => "misaligned",
                            RevealRej::OriginalLength(_) => "original-length",
                            RevealRej::Payload(_) => "payload",
                        }
                    ),
                    format!("revealed {:?}, reference rejects with {rej:?}", short(&s)),
                );
            }
        }
        (Ok(Err(e)), Ok(w)) => {
            if !c13 {
                viol(ctx, format!("reveal-rejects-specified-accept {}", format!("{e:?}").split('(').next().unwrap_or("")), format!("rejected with {e:?}, reference reveals {:?}", short(w)));
            }
        }
    }
    // the three rejections the property names, independent of the reference
    if let Ok(Ok(_)) = &got {
        if value.is_empty() || value.len() % 16 != 0 {
            viol(ctx, "accepts-empty-or-misaligned".into(), format!("{} octets accepted", value.len()));
        }
    }
    if let (Ok(Err(e)), true) = (&got, value.is_empty()) {
        if *e != DecodeError::EmptyHiddenAVP {
            ctx.tally("empty-rejected-with-other-error");
        }
    }
    ctx.tally(match &got {
        Ok(Ok(_)) => "ok",
        Ok(Err(_)) => "err",
        Err(_) => "panic",
    });
    if !value.is_empty() && value.len() % 16 == 0 {
        ctx.note_nontrivial(fnv(&value, r.attr as u64 * 4 + r.wrong_key as u64));
    }
    ctx.sample(|| reveal_json(r));
}

fn reveal_attrs() -> Vec<u16> {
    let mut v: Vec<u16> = (0..=41).collect();
    v.extend([255, 0xffff]);
    v
}

fn lo_boundary() -> Vec<u16> {
    let mut v: Vec<u16> = (0..=40).collect();
    v.extend(1000..=1030);
    v.extend([41, 47, 48, 49, 50, 255, 256, 257, 511, 512, 0x7fff, 0x8000, 0xfffe, 0xffff, 0x0600, 0x1400]);
    v
}

pub fn run_reveal(ctx: &mut Ctx) {
    let tier = ctx.tier;
    if ctx.prop != "C02" {
        ctx.nontrivial_mod = if tier.thorough() { 64 } else { 4 };
    }
    let attrs = reveal_attrs();
    // every value of the length field
    let block_counts: &[usize] = if tier.thorough() { &[1, 2, 3, 63] } else { &[1, 2, 3] };
    for &attr in &attrs {
        for &blocks in block_counts {
            for hi in 0..256u32 {
                if !ctx.mine() {
                    continue;
                }
                ctx.states += 1;
                ctx.transitions += 1;
                for lo8 in 0..256u32 {
                    let lo = (hi * 256 + lo8) as u16;
                    let contents: &[u8] = if tier.thorough() { &[0, 1, 2] } else { &[0] };
                    for &content in contents {
                        ctx.states += 1;
                        ctx.transitions += 1;
                        let r = RevealCase {
                            attr,
                            vlen: blocks * 16,
                            lo,
                            content,
                            secret_len: 6,
                            wrong_key: false,
                        };
                        let desc = || reveal_json(&r);
                        ctx.case(&desc, |ctx| check_reveal(ctx, &r));
                    }
                }
            }
        }
    }
    // boundary values of the length field x everything else
    let los = lo_boundary();
    for &attr in &attrs {
        for vlen in [0usize, 1, 15, 16, 17, 31, 32, 33, 48, 1008, 1017] {
            if !ctx.mine() {
                continue;
            }
            ctx.states += 1;
            ctx.transitions += 1;
            for &lo in &los {
                for content in 0..3u8 {
                    for secret_len in [0usize, 6, 64] {
                        for wrong_key in [false, true] {
                            if vlen % 16 != 0 && (lo != 8 || content != 0) {
                                continue; // nothing is decrypted: one representative
                            }
                            ctx.states += 1;
                            ctx.transitions += 1;
                            let r = RevealCase {
                                attr,
                                vlen,
                                lo,
                                content,
                                secret_len,
                                wrong_key,
                            };
                            let desc = || reveal_json(&r);
                            ctx.case(&desc, |ctx| check_reveal(ctx, &r));
                        }
                    }
                }
            }
        }
    }
}

pub fn replay_reveal(ctx: &mut Ctx, v: &Value) {
    let r = RevealCase {
        attr: v["attr"].as_u64().unwrap_or(0) as u16,
        vlen: v["vlen"].as_u64().unwrap_or(0) as usize,
        lo: v["lo"].as_u64().unwrap_or(0) as u16,
        content: v["content"].as_u64().unwrap_or(0) as u8,
        secret_len: v["secret_len"].as_u64().unwrap_or(0) as usize,
        wrong_key: v["wrong_key"].as_bool().unwrap_or(false),
    };
    println!("  hidden value: {}", hex(&build_cipher(&r)));
    let _ = unhex;
    for key in ["first_call", "previous_call"] {
        let Some(p) = v.get(key) else { continue };
        let pr = RevealCase {
            attr: p["attr"].as_u64().unwrap_or(0) as u16,
            vlen: p["vlen"].as_u64().unwrap_or(0) as usize,
            lo: p["lo"].as_u64().unwrap_or(0) as u16,
            content: p["content"].as_u64().unwrap_or(0) as u8,
            secret_len: p["secret_len"].as_u64().unwrap_or(0) as usize,
            wrong_key: p["wrong_key"].as_bool().unwrap_or(false),
        };
        let mut scratch = Ctx::new(&ctx.prop, ctx.tier, 0, 1);
        check_reveal(&mut scratch, &pr);
    }
    let desc = || reveal_json_plain(&r);
    ctx.case(&desc, |ctx| check_reveal(ctx, &r));
}
