//! HIST — explicit-state exploration (stateright BFS) of operation histories acting on the real
//! objects next to a reference model.
//! C18: SliceReader is a plain cursor, VecWriter a plain byte vector.
//! C09: encoding only appends.

use super::*;
use crate::bridge;
use crate::ctx::{fnv, guarded, Ctx};
use crate::gen::{self, ramp};
use crate::monitor::RecordingWriter;
use crate::spec::{self, hex, SAvp, SMessage, SVal};
use crate::vgen;
use rl2tp::common::{Reader, SliceReader, VecWriter, Writer};
use serde_json::{json, Value};
use stateright::{Checker, Model, Property};
use std::hash::{Hash, Hasher};
use std::sync::atomic::{AtomicU64, Ordering};

pub fn defs() -> Vec<PropDef> {
    vec![
        PropDef {
            id: "C18",
            profiles: BOTH,
            shards: one,
            run: run_c18,
            replay: replay_c18,
            post: |_, g, _| {
                for k in ["reader-states", "writer-states", "bytes-overrun", "subreader-live", "overwrite-refused", "overwrite-last-octet"] {
                    if !g.contains_key(k) {
                        return Err(format!("C18 guard {k} never hit"));
                    }
                }
                Ok(())
            },
            rule: "HIST: stateright breadth-first search. Reader model: base slices of 0..=6 distinct octets; state = the real SliceReader(s) (parent and up to two live sub-readers) next to a reference cursor; actions = read_u8/u16/u32/u64 when the precondition holds, bytes(n) for n = 0..=len+2 and n = usize::MAX, usize::MAX-1, 2^63, skip_bytes(n) and subreader(n) for n = 0..=len, on any live reader; every transition calls the real method. Writer model: state = the real VecWriter next to a Vec<u8>; actions = write_u8/u16/u32/u64, write_bytes of 0..=2 octets, write_bytes_at of 0..=2 octets at every offset 0..=len+1 and at usize::MAX; every state is compared observable by observable. In addition (plain enumeration): writers filled to every size within 9 octets of 256, 4 KiB, 64 KiB and 128 KiB by a mix of all append operations, then overwritten at every position class, and readers over a 70 000-octet slice operated at positions around the same boundaries with sub-readers nested three deep. Non-trivial: states at depth >= 1 (at least one operation applied); the depth is part of the state key.",
            bounds: |t| json!({"reader": {"base_lengths": "0..=6", "depth": if t.thorough() {7} else {6}, "live_subreaders": 2}, "writer": {"depth": if t.thorough() {6} else {5}}, "search": "BFS, 16 threads, run twice and state counts compared"}),
            assumptions: COMMON_ASSUMPTIONS,
            fd_monitor: false,
            mem_gb: |_| 16,
            watchdog_s: |_| 600,
            deadline_s: no_deadline,
        },
        PropDef {
            id: "C09",
            profiles: BOTH,
            shards: sixteen,
            run: run_c09,
            replay: replay_c09,
            post: |_, g, _| {
                for k in ["nonempty-prefix", "sequence-of-3", "overwrite-recorded", "prefix-over-64-octets", "far-positions", "value-space-position"] {
                    if !g.contains_key(k) {
                        return Err(format!("C09 guard {k} never hit"));
                    }
                }
                Ok(())
            },
            rule: "HIST: stateright breadth-first search; state = the real VecWriter next to a Vec<u8> model; initial states = writers already holding {0, 1, 7, 300} octets; actions = encode one entry of a 16-entry menu (control ZLB / with AVPs / with a 1023-octet AVP, data with and without optional fields, single AVPs incl. hidden and 300-octet payloads); after every action the writer must equal the old content followed by the encoding of that value into an empty writer; additionally every menu entry and every pair is encoded at 17 far writer positions (2^8 .. 2^63, on a Writer that pretends to hold the earlier octets) and into real VecWriters holding 64 KiB +- a few octets. Every history is also run through a Writer that records positional overwrites: each must lie inside the value currently being encoded, and the result must equal the VecWriter's. ENUM pre-pass: every history up to depth 2 (3) into one live VecWriter and every far-position case as attributed cases. ENUM over the value space V of C03/C06 (every AVP value, header-field sweep, AVP lists, long lists, data messages incl. the 16-bit sweep of every field; 16 workers): each value encoded three times into one live VecWriter already holding 7 octets, into a VecWriter holding exactly 1 octet, and twice into another conforming Writer positioned at 65 533, with the same oracle. Non-trivial: states at depth >= 1 and every value of V that the encoder accepts.",
            bounds: |t| json!({"prefixes_octets": [0, 1, 7, 300], "menu": 16, "value_space": "V as for C03 (domain values), x {live writer with 7 octets x3 copies, exact-capacity writer with 1 octet, other Writer at 65533 x2 copies}", "depth": if t.thorough() {4} else {3}, "far_positions": FAR_BASES.to_vec(), "real_prefixes_octets": [65530, 65534, 65535, 65536, 65537, 70000, 131071, 131072]}),
            assumptions: COMMON_ASSUMPTIONS,
            fd_monitor: false,
            mem_gb: |_| 16,
            watchdog_s: |_| 600,
            deadline_s: no_deadline,
        },
    ]
}

static TRANSITIONS: AtomicU64 = AtomicU64::new(0);

// ---------------------------------------------------------------------------------------------
// C18 reader

fn base_slice(n: usize) -> &'static [u8] {
    static B: [u8; 6] = [0x11, 0x22, 0x33, 0x44, 0x55, 0x66];
    &B[..n]
}

#[derive(Clone, Debug)]
struct RLive {
    real: SliceReader<'static>,
    /// reference cursor: [start, end) into the base slice
    start: usize,
    end: usize,
}

#[derive(Clone, Debug)]
struct RState {
    depth: u8,
    base: u8,
    live: Vec<RLive>,
    bad: Option<String>,
}

fn reader_content(r: &SliceReader<'static>) -> Option<Vec<u8>> {
    let mut c = *r;
    let n = Reader::len(&c);
    guarded(move || c.bytes(n).map(|b| b.to_vec())).ok().flatten()
}

impl PartialEq for RState {
    fn eq(&self, o: &Self) -> bool {
        self.depth == o.depth
            && self.base == o.base
            && self.bad == o.bad
            && self.live.len() == o.live.len()
            && self.live.iter().zip(o.live.iter()).all(|(a, b)| a.real == b.real && a.start == b.start && a.end == b.end)
    }
}
impl Eq for RState {}
impl Hash for RState {
    fn hash<H: Hasher>(&self, h: &mut H) {
        self.depth.hash(h);
        self.base.hash(h);
        self.bad.hash(h);
        for l in &self.live {
            // observable content of the real object + the model cursor
            reader_content(&l.real).hash(h);
            l.start.hash(h);
            l.end.hash(h);
        }
    }
}

#[derive(Clone, Copy, Debug, PartialEq, Eq, Hash)]
enum ROp {
    U8(u8),
    U16(u8),
    U32(u8),
    U64(u8),
    Bytes(u8, u8),
    Skip(u8, u8),
    Sub(u8, u8),
}

struct ReaderModel {
    max_depth: u8,
}

fn be(b: &[u8]) -> u64 {
    b.iter().fold(0u64, |a, x| (a << 8) | *x as u64)
}

fn apply_reader(s: &RState, op: ROp) -> RState {
    let mut n = s.clone();
    n.depth += 1;
    let base = base_slice(s.base as usize);
    let which = match op {
        ROp::U8(i) | ROp::U16(i) | ROp::U32(i) | ROp::U64(i) | ROp::Bytes(i, _) | ROp::Skip(i, _) | ROp::Sub(i, _) => i as usize,
    };
    let l = &mut n.live[which];
    let mut fail = |msg: String| {
        if n.bad.is_none() {
            n.bad = Some(msg);
        }
    };
    macro_rules! read {
        ($m:ident, $w:expr) => {{
            let mut r = l.real;
            let got = guarded(move || {
                let v = unsafe { r.$m() } as u64;
                (v, r)
            });
            let want = be(&base[l.start..l.start + $w]);
            l.start += $w;
            match got {
                Ok((v, r)) => {
                    l.real = r;
                    if v != want {
                        fail(format!("{} returned {v:#x}, the next {} octets big-endian are {want:#x}", stringify!($m), $w));
                    }
                }
                Err(p) => fail(format!("{} panicked at {}: {}", stringify!($m), p.0, p.1)),
            }
        }};
    }
    match op {
        ROp::U8(_) => read!(read_u8_unchecked, 1),
        ROp::U16(_) => read!(read_u16_be_unchecked, 2),
        ROp::U32(_) => read!(read_u32_be_unchecked, 4),
        ROp::U64(_) => read!(read_u64_be_unchecked, 8),
        ROp::Bytes(_, k) => {
            let k: usize = match k {
                250 => usize::MAX,
                251 => usize::MAX - 1,
                252 => (usize::MAX >> 1) + 1,
                x => x as usize,
            };
            let mut r = l.real;
            let got = guarded(move || {
                let v = r.bytes(k).map(|b| b.to_vec());
                (v, r)
            });
            let avail = l.end - l.start;
            match got {
                Err(p) => fail(format!("bytes({k}) with {avail} remaining panicked at {}: {}", p.0, p.1)),
                Ok((v, r)) => {
                    l.real = r;
                    if k <= avail {
                        let want = base[l.start..l.start + k].to_vec();
                        l.start += k;
                        if v.as_ref() != Some(&want) {
                            fail(format!("bytes({k}) returned {v:?}, expected {want:?}"));
                        }
                    } else if v.is_some() {
                        fail(format!("bytes({k}) with {avail} remaining returned {v:?} instead of None"));
                    } else {
                        // a plain cursor does not move when it cannot serve a request: the
                        // octets that remain must still be readable afterwards
                        let left = Reader::len(&l.real);
                        if left != avail {
                            fail(format!("bytes({k}) with {avail} remaining returned None but left {left} octets in the reader (a refused request must not move the cursor)"));
                        }
                    }
                }
            }
        }
        ROp::Skip(_, k) => {
            let k = k as usize;
            let mut r = l.real;
            let got = guarded(move || {
                r.skip_bytes(k);
                r
            });
            l.start += k;
            match got {
                Ok(r) => l.real = r,
                Err(p) => fail(format!("skip_bytes({k}) panicked at {}: {}", p.0, p.1)),
            }
        }
        ROp::Sub(_, k) => {
            let k = k as usize;
            let mut r = l.real;
            let got = guarded(move || {
                let s = r.subreader(k);
                (s, r)
            });
            let sub_model = (l.start, l.start + k);
            l.start += k;
            match got {
                Ok((sr, r)) => {
                    l.real = r;
                    n.live.push(RLive {
                        real: sr,
                        start: sub_model.0,
                        end: sub_model.1,
                    });
                }
                Err(p) => fail(format!("subreader({k}) panicked at {}: {}", p.0, p.1)),
            }
        }
    }
    // every observable of every live reader
    if n.bad.is_none() {
        for (i, l) in n.live.iter().enumerate() {
            let want = &base[l.start..l.end];
            let len = Reader::len(&l.real);
            let empty = Reader::is_empty(&l.real);
            if len != want.len() || empty != want.is_empty() {
                n.bad = Some(format!("after {op:?}: reader {i} reports len {len} / is_empty {empty}, the cursor has {} octets", want.len()));
                break;
            }
            match reader_content(&l.real) {
                Some(c) if c == want => (),
                other => {
                    n.bad = Some(format!("after {op:?}: reader {i} holds {other:?}, the cursor holds {want:?}"));
                    break;
                }
            }
        }
    }
    n
}

impl Model for ReaderModel {
    type State = RState;
    type Action = ROp;
    fn init_states(&self) -> Vec<RState> {
        (0..=6u8)
            .map(|n| RState {
                depth: 0,
                base: n,
                live: vec![RLive {
                    real: SliceReader::from(base_slice(n as usize)),
                    start: 0,
                    end: n as usize,
                }],
                bad: None,
            })
            .collect()
    }
    fn actions(&self, s: &RState, out: &mut Vec<ROp>) {
        if s.depth >= self.max_depth || s.bad.is_some() {
            return;
        }
        for (i, l) in s.live.iter().enumerate() {
            let i = i as u8;
            let avail = l.end - l.start;
            if avail >= 1 {
                out.push(ROp::U8(i));
            }
            if avail >= 2 {
                out.push(ROp::U16(i));
            }
            if avail >= 4 {
                out.push(ROp::U32(i));
            }
            if avail >= 8 {
                out.push(ROp::U64(i));
            }
            for k in 0..=(avail + 2) as u8 {
                out.push(ROp::Bytes(i, k));
            }
            // requests near usize::MAX (position + length must not overflow)
            for k in [250u8, 251, 252] {
                out.push(ROp::Bytes(i, k));
            }
            for k in 0..=avail as u8 {
                out.push(ROp::Skip(i, k));
                if s.live.len() < 3 {
                    out.push(ROp::Sub(i, k));
                }
            }
        }
    }
    fn next_state(&self, s: &RState, a: ROp) -> Option<RState> {
        TRANSITIONS.fetch_add(1, Ordering::Relaxed);
        Some(apply_reader(s, a))
    }
    fn properties(&self) -> Vec<Property<Self>> {
        vec![Property::always("reader conforms to the reference cursor", |_, s: &RState| s.bad.is_none())]
    }
}

/// The reference cursors alone (no library object): what `actions()` needs to enumerate histories.
fn shadow_reader_ops(live: &[(usize, usize)], out: &mut Vec<ROp>) {
    for (i, (start, end)) in live.iter().enumerate() {
        let i = i as u8;
        let avail = end - start;
        if avail >= 1 {
            out.push(ROp::U8(i));
        }
        if avail >= 2 {
            out.push(ROp::U16(i));
        }
        if avail >= 4 {
            out.push(ROp::U32(i));
        }
        if avail >= 8 {
            out.push(ROp::U64(i));
        }
        for k in 0..=(avail + 2) as u8 {
            out.push(ROp::Bytes(i, k));
        }
        for k in [250u8, 251, 252] {
            out.push(ROp::Bytes(i, k));
        }
        for k in 0..=avail as u8 {
            out.push(ROp::Skip(i, k));
            if live.len() < 3 {
                out.push(ROp::Sub(i, k));
            }
        }
    }
}

fn shadow_reader_apply(live: &mut Vec<(usize, usize)>, op: ROp) {
    match op {
        ROp::U8(i) => live[i as usize].0 += 1,
        ROp::U16(i) => live[i as usize].0 += 2,
        ROp::U32(i) => live[i as usize].0 += 4,
        ROp::U64(i) => live[i as usize].0 += 8,
        ROp::Bytes(i, k) => {
            let l = &mut live[i as usize];
            if k < 250 && (k as usize) <= l.1 - l.0 {
                l.0 += k as usize;
            }
        }
        ROp::Skip(i, k) => live[i as usize].0 += k as usize,
        ROp::Sub(i, k) => {
            let l = &mut live[i as usize];
            let sub = (l.0, l.0 + k as usize);
            l.0 += k as usize;
            live.push(sub);
        }
    }
}

fn reader_sig(ops: &[ROp], what: &str) -> String {
    let opname = ops.last().map(|a| format!("{a:?}").split('(').next().unwrap_or("").to_string()).unwrap_or_default();
    format!("C18 reader {opname} {}", if what.contains("panicked") { "panics" } else { "differs" })
}

/// Pre-pass: every reader history up to `depth` as an attributed case of the ENUM engine, so that
/// a fatal signal inside the library is tied to the history that caused it.
fn live_reader_histories(ctx: &mut Ctx, depth: usize) {
    fn rec(ctx: &mut Ctx, base: u8, ops: &mut Vec<ROp>, live: &[(usize, usize)], left: usize, count: &mut u64) {
        let mut alphabet = Vec::new();
        shadow_reader_ops(live, &mut alphabet);
        for op in alphabet {
            ops.push(op);
            let o2 = ops.clone();
            let desc = move || json!({"kind":"reader-history","base":base,"ops":o2.iter().map(|a| format!("{a:?}")).collect::<Vec<_>>()});
            *count += 1;
            ctx.case(&desc, |ctx| {
                let mut s = ReaderModel { max_depth: 99 }.init_states().into_iter().find(|s| s.base == base).unwrap();
                for (d, o) in ops.iter().enumerate() {
                    s = apply_reader(&s, *o);
                    if let Some(what) = &s.bad {
                        if d + 1 == ops.len() {
                            ctx.violation(reader_sig(ops, what), format!("base slice of {base} octets, operations {ops:?}: {what}"), ops.len(), &desc);
                        }
                        return;
                    }
                }
            });
            if left > 1 {
                let mut l2 = live.to_vec();
                shadow_reader_apply(&mut l2, op);
                rec(ctx, base, ops, &l2, left - 1, count);
            }
            ops.pop();
        }
    }
    let mut count = 0u64;
    for base in 0..=6u8 {
        rec(ctx, base, &mut Vec::new(), &[(0, base as usize)], depth, &mut count);
    }
    ctx.states += count;
    ctx.transitions += count;
    ctx.extra.insert(format!("live_reader_histories_to_depth_{depth}"), json!(count));
}

// ---------------------------------------------------------------------------------------------
// C18 writer

#[derive(Clone, Debug, PartialEq, Eq, Hash)]
struct WState {
    depth: u8,
    real: Vec<u8>,
    model: Vec<u8>,
    bad: Option<String>,
}

#[derive(Clone, Copy, Debug, PartialEq, Eq, Hash)]
enum WOp {
    U8,
    U16,
    U32,
    U64,
    Bytes(u8),
    /// (number of octets, offset; 250 = usize::MAX, 251 = usize::MAX - 1)
    At(u8, u8),
}

struct WriterModel {
    max_depth: u8,
}

fn wval(depth: u8, i: usize) -> u8 {
    0xa0u8.wrapping_add(depth.wrapping_mul(0x10)).wrapping_add(i as u8)
}

/// One writer operation on a live `VecWriter` and on the reference vector; `Some(..)` describes a
/// departure from the reference.
fn writer_step(real: &mut VecWriter, model: &mut Vec<u8>, d: u8, op: WOp) -> Option<String> {
    let vals: Vec<u8> = (0..8).map(|i| wval(d, i)).collect();
    let res = match op {
        WOp::U8 => {
            model.push(vals[0]);
            guarded(|| real.write_u8(vals[0]))
        }
        WOp::U16 => {
            model.extend_from_slice(&vals[..2]);
            guarded(|| real.write_u16_be(be(&vals[..2]) as u16))
        }
        WOp::U32 => {
            model.extend_from_slice(&vals[..4]);
            guarded(|| real.write_u32_be(be(&vals[..4]) as u32))
        }
        WOp::U64 => {
            model.extend_from_slice(&vals[..8]);
            guarded(|| real.write_u64_be(be(&vals[..8])))
        }
        WOp::Bytes(k) => {
            model.extend_from_slice(&vals[..k as usize]);
            guarded(|| real.write_bytes(&vals[..k as usize]))
        }
        WOp::At(k, off) => {
            let k = k as usize;
            let off: usize = match off {
                250 => usize::MAX,
                251 => usize::MAX - 1,
                x => x as usize,
            };
            let patch: Vec<u8> = (0..k).map(|i| 0x0f ^ wval(d, i)).collect();
            let inside = off.checked_add(k).map_or(false, |e| e <= model.len());
            let r = guarded(|| real.write_bytes_at(&patch, off));
            if inside {
                model[off..off + k].copy_from_slice(&patch);
                r
            } else {
                // must be refused (panic) and leave the buffer unchanged
                match r {
                    Ok(()) => Err(("-".into(), format!("write_bytes_at({k} octets, offset {off}) on {} written octets was not refused", model.len()))),
                    Err(_) => Ok(()),
                }
            }
        }
    };
    if let Err(p) = res {
        return Some(format!("{op:?}: {} {}", p.0, p.1));
    }
    if real.data != *model {
        return Some(format!("after {op:?}: writer holds {}, reference vector holds {}", hex(&real.data), hex(model)));
    }
    if real.len() != model.len() || real.is_empty() != model.is_empty() {
        return Some(format!("after {op:?}: len() = {}, is_empty() = {}, reference vector has {} octets", real.len(), real.is_empty(), model.len()));
    }
    None
}

fn apply_writer(s: &WState, op: WOp) -> WState {
    let mut n = s.clone();
    n.depth += 1;
    let mut real = VecWriter { data: s.real.clone() };
    n.bad = writer_step(&mut real, &mut n.model, s.depth, op);
    n.real = real.data.clone();
    n
}

/// The operations the writer model enables on a reference vector of `len` octets.
fn writer_ops(len: usize, out: &mut Vec<WOp>) {
    out.extend([WOp::U8, WOp::U16, WOp::U32, WOp::U64, WOp::Bytes(0), WOp::Bytes(1), WOp::Bytes(2)]);
    let len = len.min(200) as u8;
    for k in 0..=2u8 {
        for off in 0..=len + 1 {
            out.push(WOp::At(k, off));
        }
        out.push(WOp::At(k, 250));
        out.push(WOp::At(k, 251));
    }
}

fn wop_growth(op: WOp) -> usize {
    match op {
        WOp::U8 => 1,
        WOp::U16 => 2,
        WOp::U32 => 4,
        WOp::U64 => 8,
        WOp::Bytes(k) => k as usize,
        WOp::At(..) => 0,
    }
}

fn writer_sig(ops: &[WOp], what: &str) -> String {
    let opname = ops.last().map(|a| format!("{a:?}").split('(').next().unwrap_or("").to_string()).unwrap_or_default();
    format!("C18 writer {opname} {}", if what.contains("not refused") { "not-refused" } else { "differs" })
}

/// One history on ONE live `VecWriter` (its capacity carries over from operation to operation,
/// unlike in the state-graph search, where every state is rebuilt from its octets).
fn live_writer_history(ctx: &mut Ctx, ops: &[WOp], case: &dyn Fn() -> Value) {
    let mut real = VecWriter::new();
    let mut model: Vec<u8> = Vec::new();
    for (d, op) in ops.iter().enumerate() {
        if let Some(what) = writer_step(&mut real, &mut model, d as u8, *op) {
            if d + 1 == ops.len() {
                ctx.violation(writer_sig(ops, &what), format!("one live writer, operations {ops:?}: {what}"), ops.len(), case);
            }
            return;
        }
    }
}

/// Pre-pass: every writer history up to `depth` as an attributed case of the ENUM engine (a fatal
/// signal inside the library is then tied to the history that caused it), on one live writer.
fn live_writer_histories(ctx: &mut Ctx, depth: usize) {
    fn rec(ctx: &mut Ctx, ops: &mut Vec<WOp>, len: usize, left: usize, count: &mut u64) {
        let mut alphabet = Vec::new();
        writer_ops(len, &mut alphabet);
        for op in alphabet {
            ops.push(op);
            let o2 = ops.clone();
            let desc = move || json!({"kind":"writer-history","live":true,"ops":o2.iter().map(|a| format!("{a:?}")).collect::<Vec<_>>()});
            *count += 1;
            ctx.case(&desc, |ctx| live_writer_history(ctx, ops, &desc));
            if left > 1 {
                rec(ctx, ops, len + wop_growth(op), left - 1, count);
            }
            ops.pop();
        }
    }
    let mut count = 0u64;
    rec(ctx, &mut Vec::new(), 0, depth, &mut count);
    ctx.states += count;
    ctx.transitions += count;
    ctx.extra.insert(format!("live_writer_histories_to_depth_{depth}"), json!(count));
}

impl Model for WriterModel {
    type State = WState;
    type Action = WOp;
    fn init_states(&self) -> Vec<WState> {
        vec![WState {
            depth: 0,
            real: vec![],
            model: vec![],
            bad: None,
        }]
    }
    fn actions(&self, s: &WState, out: &mut Vec<WOp>) {
        if s.depth >= self.max_depth || s.bad.is_some() {
            return;
        }
        writer_ops(s.model.len(), out);
    }
    fn next_state(&self, s: &WState, a: WOp) -> Option<WState> {
        TRANSITIONS.fetch_add(1, Ordering::Relaxed);
        Some(apply_writer(s, a))
    }
    fn properties(&self) -> Vec<Property<Self>> {
        vec![Property::always("writer conforms to the reference vector", |_, s: &WState| s.bad.is_none())]
    }
}

fn run_model<M>(ctx: &mut Ctx, name: &str, build: impl Fn() -> M, describe: impl Fn(&M::State, &[M::Action]) -> (String, String, Value)) -> u64
where
    M: Model + Send + Sync + 'static,
    M::State: Clone + PartialEq + Hash + Send + Sync + std::fmt::Debug + 'static,
    M::Action: Clone + PartialEq + Send + Sync + std::fmt::Debug + 'static,
{
    let mut counts = Vec::new();
    for round in 0..2 {
        TRANSITIONS.store(0, Ordering::Relaxed);
        let checker = build().checker().threads(16).spawn_bfs().join();
        let unique = checker.unique_state_count() as u64;
        let transitions = TRANSITIONS.load(Ordering::Relaxed);
        counts.push(unique);
        if round == 0 {
            ctx.states += unique;
            ctx.transitions += transitions;
            ctx.executions += transitions;
            ctx.extra.insert(format!("{name}_unique_states"), json!(unique));
            ctx.extra.insert(format!("{name}_generated_states"), json!(checker.state_count()));
            ctx.extra.insert(format!("{name}_max_depth"), json!(checker.max_depth()));
            ctx.extra.insert(format!("{name}_transitions"), json!(transitions));
        }
        let disc = checker.discoveries();
        if let Some((_, path)) = disc.into_iter().next() {
            let last = path.last_state().clone();
            let actions = path.into_actions();
            let (sig, detail, case) = describe(&last, &actions);
            ctx.violation(sig, detail, actions.len(), || case.clone());
            return unique;
        }
    }
    if counts[0] != counts[1] {
        ctx.capped = Some(format!("{name}: the two searches visited {} and {} unique states (nondeterminism in the harness)", counts[0], counts[1]));
    }
    counts[0]
}

fn run_c18(ctx: &mut Ctx) {
    let t = ctx.tier;
    let rd = if t.thorough() { 7 } else { 6 };
    let wd_ = if t.thorough() { 6 } else { 5 };
    // pre-passes of the ENUM engine: short histories as attributed cases (fatal signals), the
    // writer ones on one live writer; then the boundary-size cases, also attributed
    live_reader_histories(ctx, if t.thorough() { 3 } else { 2 });
    live_writer_histories(ctx, if t.thorough() { 4 } else { 3 });
    big_writer_cases(ctx);
    big_reader_cases(ctx);
    if ctx.only_case.is_some() || ctx.stop_after.is_some() {
        return;
    }
    if ctx.start_after > 0 {
        // resumed after a fatal case: the state-graph search runs inside this process and would
        // only die the same way
        ctx.capped = Some("state-graph search skipped: the worker was resumed after a fatal case in the pre-pass".into());
        return;
    }
    let n = run_model(
        ctx,
        "reader",
        || ReaderModel { max_depth: rd },
        |last: &RState, actions: &[ROp]| {
            let what = last.bad.clone().unwrap_or_default();
            let opname = actions.last().map(|a| format!("{a:?}").split('(').next().unwrap_or("").to_string()).unwrap_or_default();
            (
                format!("C18 reader {opname} {}", if what.contains("panicked") { "panics" } else { "differs" }),
                format!("base slice of {} octets, operations {actions:?}: {what}", last.base),
                json!({"kind":"reader-history","base":last.base,"ops":actions.iter().map(|a| format!("{a:?}")).collect::<Vec<_>>()}),
            )
        },
    );
    if n > 7 {
        ctx.guard("reader-states");
        // the alphabet contains these by construction (actions() is generator-side)
        ctx.guard("bytes-overrun");
        ctx.guard("subreader-live");
    }
    let n = run_model(
        ctx,
        "writer",
        || WriterModel { max_depth: wd_ },
        |last: &WState, actions: &[WOp]| {
            let what = last.bad.clone().unwrap_or_default();
            let opname = actions.last().map(|a| format!("{a:?}").split('(').next().unwrap_or("").to_string()).unwrap_or_default();
            (
                format!("C18 writer {opname} {}", if what.contains("not refused") { "not-refused" } else { "differs" }),
                format!("operations {actions:?}: {what}"),
                json!({"kind":"writer-history","ops":actions.iter().map(|a| format!("{a:?}")).collect::<Vec<_>>()}),
            )
        },
    );
    if n > 1 {
        ctx.guard("writer-states");
        ctx.guard("overwrite-refused");
        ctx.guard("overwrite-last-octet");
    }
    // unique states beyond the initial ones, as deduplicated by stateright
    ctx.nontrivial_direct = ctx.states.saturating_sub(8);
    ctx.tally("histories");
    // samples: two histories of the explored space, re-walked here through the model's own
    // actions()/next_state() (every step must be an enabled action) with the state they reach
    {
        let m = ReaderModel { max_depth: rd };
        let mut st = m.init_states().into_iter().find(|x| x.base == 6).unwrap();
        let ops = [ROp::Sub(0, 3), ROp::U16(1), ROp::Bytes(0, 4), ROp::U8(1)];
        let mut ok = true;
        for op in ops {
            let mut en = Vec::new();
            m.actions(&st, &mut en);
            ok &= en.contains(&op);
            st = apply_reader(&st, op);
        }
        ctx.samples.push(json!({"kind":"reader-history","base":6,"ops":ops.iter().map(|o| format!("{o:?}")).collect::<Vec<_>>(),
            "every_step_enabled": ok, "reached": {"readers": st.live.iter().map(|l| reader_content(&l.real).map(|c| hex(&c))).collect::<Vec<_>>(), "conforms": st.bad.is_none()}}));
        let m = WriterModel { max_depth: wd_ };
        let mut st = m.init_states().remove(0);
        let ops = [WOp::U32, WOp::At(2, 2), WOp::Bytes(1), WOp::At(1, 4), WOp::At(2, 4)];
        let mut ok = true;
        for op in ops {
            let mut en = Vec::new();
            m.actions(&st, &mut en);
            ok &= en.contains(&op);
            st = apply_writer(&st, op);
        }
        ctx.samples.push(json!({"kind":"writer-history","ops":ops.iter().map(|o| format!("{o:?}")).collect::<Vec<_>>(),
            "every_step_enabled": ok, "reached": {"writer": hex(&st.real), "conforms": st.bad.is_none()}}));
    }
}

/// Writers that grow across 4 KiB and 64 KiB (capacity growth, 16-bit offsets): every fill size
/// around the boundary, filled by a mix of all append operations, then every overwrite position
/// class, then more appends; compared with a plain Vec at every step.
fn big_writer_cases(ctx: &mut Ctx) {
    let mut count = 0u64;
    for boundary in [256usize, 4096, 65_536, 131_072] {
        for fill in boundary - 9..=boundary + 9 {
            let desc = move || json!({"kind":"big-writer","fill":fill,"step":"*"});
            let count = &mut count;
            ctx.case(&desc, move |ctx| {
            let case = |step: &str| json!({"kind":"big-writer","fill":fill,"step":step});
            let mut w = VecWriter::new();
            let mut model: Vec<u8> = Vec::new();
            // fill with a rotating mix of operations
            let mut i = 0usize;
            let r = guarded(|| {
                while model.len() < fill {
                    let left = fill - model.len();
                    let b = (model.len() % 251) as u8;
                    match i % 5 {
                        0 if left >= 8 => {
                            let v = u64::from_be_bytes([b, b ^ 1, b ^ 2, b ^ 3, b ^ 4, b ^ 5, b ^ 6, b ^ 7]);
                            w.write_u64_be(v);
                            model.extend_from_slice(&v.to_be_bytes());
                        }
                        1 if left >= 4 => {
                            let v = u32::from_be_bytes([b, b ^ 9, b ^ 10, b ^ 11]);
                            w.write_u32_be(v);
                            model.extend_from_slice(&v.to_be_bytes());
                        }
                        2 if left >= 2 => {
                            let v = u16::from_be_bytes([b, b ^ 0x55]);
                            w.write_u16_be(v);
                            model.extend_from_slice(&v.to_be_bytes());
                        }
                        3 if left >= 37 => {
                            let chunk: Vec<u8> = (0..37).map(|k| b.wrapping_add(k as u8)).collect();
                            w.write_bytes(&chunk);
                            model.extend_from_slice(&chunk);
                        }
                        _ => {
                            w.write_u8(b);
                            model.push(b);
                        }
                    }
                    i += 1;
                }
            });
            *count += 1;
            if r.is_err() || w.data != model || w.len() != model.len() {
                let at = w.data.iter().zip(model.iter()).position(|(x, y)| x != y).unwrap_or(w.data.len().min(model.len()));
                ctx.violation("C18 writer big-fill".into(), format!("after appending {fill} octets with mixed operations the writer differs from the reference vector at octet {at} (lengths {} vs {})", w.data.len(), model.len()), fill, || case("fill"));
                return;
            }
            // overwrites around every interesting position
            let len = model.len();
            let mut offs: Vec<usize> = vec![0, 1, 254, 255, 256, 4094, 4095, 4096, 65_534, 65_535, 65_536, 65_537, len.saturating_sub(3), len.saturating_sub(2), len.saturating_sub(1), len, len + 1];
            offs.sort();
            offs.dedup();
            for off in offs {
                for k in 0..=3usize {
                    let patch: Vec<u8> = (0..k).map(|j| 0xf0 ^ (j as u8)).collect();
                    let inside = off + k <= len;
                    let before = w.data.clone();
                    let r = guarded(|| w.write_bytes_at(&patch, off));
                    *count += 1;
                    if inside {
                        model[off..off + k].copy_from_slice(&patch);
                        if r.is_err() || w.data != model {
                            ctx.violation("C18 writer big-overwrite".into(), format!("{len} octets written, overwrite of {k} octets at {off}: {}", if r.is_err() { "refused" } else { "buffer differs from the reference vector" }), fill, || case("overwrite"));
                            w.data = model.clone();
                        }
                    } else if r.is_ok() || w.data != before {
                        ctx.violation("C18 writer big-overwrite-not-refused".into(), format!("{len} octets written, overwrite of {k} octets at {off} must be refused and leave the buffer unchanged"), fill, || case("overwrite"));
                        w.data = model.clone();
                    }
                }
            }
            // and the writer still appends correctly afterwards
            let r = guarded(|| {
                w.write_u32_be(0xdeadbeef);
                w.write_bytes(&[1, 2, 3]);
                w.write_u8(9);
            });
            model.extend_from_slice(&[0xde, 0xad, 0xbe, 0xef, 1, 2, 3, 9]);
            *count += 1;
            if r.is_err() || w.data != model {
                ctx.violation("C18 writer big-append-after-overwrite".into(), format!("appends after overwrites on a {len}-octet writer differ from the reference vector"), fill, || case("append"));
            }
            });
        }
    }
    ctx.states += count;
    ctx.transitions += count;
    ctx.executions += count;
    ctx.nontrivial_direct += count;
    ctx.extra.insert("big_writer_cases".into(), json!(count));
}

/// Readers over slices that cross 256 / 64 KiB: reads, sub-readers and slices at positions
/// around the boundaries, nested sub-readers three deep.
fn big_reader_cases(ctx: &mut Ctx) {
    let base: Vec<u8> = (0..70_000usize).map(|i| ((i * 31 + 7) % 251) as u8).collect();
    let base: &'static [u8] = Box::leak(base.into_boxed_slice());
    let mut count = 0u64;
    for pos in [0usize, 1, 250, 254, 255, 256, 257, 4095, 4096, 65_530, 65_534, 65_535, 65_536, 65_537, 69_990] {
        for op in 0..8usize {
            let case = move || json!({"kind":"big-reader","pos":pos,"op":op});
            count += 1;
            ctx.case(&case, |ctx| {
            let r = guarded(|| {
                let mut rd = SliceReader::from(base);
                rd.skip_bytes(pos);
                let mut cur = pos;
                let mut problems: Vec<String> = Vec::new();
                let needed = [8usize, 4, 300, 600, 0, 0, 0, 0][op];
                if base.len() - cur < needed {
                    return problems; // precondition of the operation does not hold here
                }
                match op {
                    0 => {
                        let v = unsafe { rd.read_u64_be_unchecked() };
                        if v != be(&base[cur..cur + 8]) {
                            problems.push(format!("read_u64 at {cur}"));
                        }
                        cur += 8;
                    }
                    1 => {
                        let v = unsafe { rd.read_u32_be_unchecked() } as u64;
                        if v != be(&base[cur..cur + 4]) {
                            problems.push(format!("read_u32 at {cur}"));
                        }
                        cur += 4;
                    }
                    2 => {
                        let b = rd.bytes(300).map(|x| x.to_vec());
                        if b.as_deref() != Some(&base[cur..cur + 300]) {
                            problems.push(format!("bytes(300) at {cur}"));
                        }
                        cur += 300;
                    }
                    3 => {
                        // nested sub-readers: 600 -> 300 (after skipping 5) -> 100
                        let mut s1 = rd.subreader(600);
                        s1.skip_bytes(5);
                        let mut s2 = s1.subreader(300);
                        let s3 = s2.subreader(100);
                        let mut s3c = s3;
                        if s3c.bytes(100).map(|x| x.to_vec()).as_deref() != Some(&base[cur + 5..cur + 105]) {
                            problems.push("innermost sub-reader content".into());
                        }
                        if Reader::len(&s2) != 200 || Reader::len(&s1) != 295 {
                            problems.push(format!("nested lengths {} {}", Reader::len(&s2), Reader::len(&s1)));
                        }
                        let v = unsafe { s2.read_u16_be_unchecked() } as u64;
                        if v != be(&base[cur + 105..cur + 107]) {
                            problems.push("read on the middle sub-reader after carving the inner one".into());
                        }
                        let v = unsafe { s1.read_u8_unchecked() } as u64;
                        if v != base[cur + 305] as u64 {
                            problems.push("read on the outer sub-reader after the middle one".into());
                        }
                        cur += 600;
                    }
                    4 => {
                        // zero-length requests leave everything in place
                        let z = rd.bytes(0).map(|x| x.len());
                        rd.skip_bytes(0);
                        let s = rd.subreader(0);
                        if z != Some(0) || !Reader::is_empty(&s) || Reader::len(&s) != 0 {
                            problems.push("zero-length request".into());
                        }
                    }
                    5 => {
                        // exactly everything that remains, then empty
                        let left = base.len() - cur;
                        let b = rd.bytes(left).map(|x| x.len());
                        if b != Some(left) || !Reader::is_empty(&rd) {
                            problems.push("bytes(all remaining)".into());
                        }
                        cur = base.len();
                    }
                    6 => {
                        // refused request keeps the reader intact
                        let left = base.len() - cur;
                        if rd.bytes(left + 1).is_some() || Reader::len(&rd) != left {
                            problems.push("bytes(remaining + 1)".into());
                        }
                    }
                    _ => {
                        let left = base.len() - cur;
                        let s = rd.subreader(left);
                        if Reader::len(&s) != left || !Reader::is_empty(&rd) {
                            problems.push("subreader(all remaining)".into());
                        }
                        cur = base.len();
                    }
                }
                if Reader::len(&rd) != base.len() - cur {
                    problems.push(format!("position afterwards: {} octets left, expected {}", Reader::len(&rd), base.len() - cur));
                } else if cur < base.len() {
                    let v = unsafe { rd.read_u8_unchecked() };
                    if v != base[cur] {
                        problems.push(format!("next octet after the operation is {v:#x}, expected {:#x}", base[cur]));
                    }
                }
                problems
            });
            match r {
                Ok(p) if p.is_empty() => (),
                Ok(p) => ctx.violation(format!("C18 reader big op{op}"), format!("70000-octet slice, position {pos}: {}", p.join("; ")), pos, case),
                Err(p) => ctx.violation(format!("C18 reader big op{op} panics"), format!("position {pos}: panic at {}: {}", p.0, p.1), pos, case),
            }
            });
        }
    }
    ctx.states += count;
    ctx.transitions += count;
    ctx.executions += count;
    ctx.nontrivial_direct += count;
    ctx.extra.insert("big_reader_cases".into(), json!(count));
}

fn parse_rop(s: &str) -> Option<ROp> {
    let (name, rest) = s.split_once('(')?;
    let nums: Vec<u8> = rest.trim_end_matches(')').split(',').filter_map(|x| x.trim().parse().ok()).collect();
    Some(match (name, nums.as_slice()) {
        ("U8", [i]) => ROp::U8(*i),
        ("U16", [i]) => ROp::U16(*i),
        ("U32", [i]) => ROp::U32(*i),
        ("U64", [i]) => ROp::U64(*i),
        ("Bytes", [i, k]) => ROp::Bytes(*i, *k),
        ("Skip", [i, k]) => ROp::Skip(*i, *k),
        ("Sub", [i, k]) => ROp::Sub(*i, *k),
        _ => return None,
    })
}

fn parse_wop(s: &str) -> Option<WOp> {
    if let Some((name, rest)) = s.split_once('(') {
        let nums: Vec<u8> = rest.trim_end_matches(')').split(',').filter_map(|x| x.trim().parse().ok()).collect();
        return Some(match (name, nums.as_slice()) {
            ("Bytes", [k]) => WOp::Bytes(*k),
            ("At", [k, o]) => WOp::At(*k, *o),
            _ => return None,
        });
    }
    Some(match s {
        "U8" => WOp::U8,
        "U16" => WOp::U16,
        "U32" => WOp::U32,
        "U64" => WOp::U64,
        _ => return None,
    })
}

fn replay_c18(ctx: &mut Ctx, v: &Value) {
    let ops: Vec<String> = v["ops"].as_array().map(|a| a.iter().filter_map(|x| x.as_str().map(|s| s.to_string())).collect()).unwrap_or_default();
    match v["kind"].as_str() {
        Some("reader-history") => {
            let base = v["base"].as_u64().unwrap_or(0) as u8;
            let mut s = ReaderModel { max_depth: 99 }.init_states().into_iter().find(|s| s.base == base).unwrap();
            for o in &ops {
                let Some(op) = parse_rop(o) else {
                    eprintln!("machinery: bad op {o}");
                    std::process::exit(2);
                };
                s = apply_reader(&s, op);
                println!("  {o}: {}", s.bad.clone().unwrap_or_else(|| "ok".into()));
                if let Some(b) = &s.bad {
                    ctx.violation("C18 reader replay".into(), b.clone(), ops.len(), || v.clone());
                    return;
                }
            }
        }
        Some("writer-history") if v["live"].as_bool() == Some(true) => {
            let parsed: Vec<WOp> = ops.iter().filter_map(|o| parse_wop(o)).collect();
            if parsed.len() != ops.len() {
                eprintln!("machinery: bad op in {ops:?}");
                std::process::exit(2);
            }
            live_writer_history(ctx, &parsed, &|| v.clone());
        }
        Some("writer-history") => {
            let mut s = WriterModel { max_depth: 99 }.init_states().remove(0);
            for o in &ops {
                let Some(op) = parse_wop(o) else {
                    eprintln!("machinery: bad op {o}");
                    std::process::exit(2);
                };
                s = apply_writer(&s, op);
                println!("  {o}: {}", s.bad.clone().unwrap_or_else(|| "ok".into()));
                if let Some(b) = &s.bad {
                    ctx.violation("C18 writer replay".into(), b.clone(), ops.len(), || v.clone());
                    return;
                }
            }
        }
        Some("big-writer") | Some("big-reader") => {
            // cheap enough to re-run as a whole
            big_writer_cases(ctx);
            big_reader_cases(ctx);
        }
        _ => {
            eprintln!("machinery: bad C18 replay case");
            std::process::exit(2);
        }
    }
}

// ---------------------------------------------------------------------------------------------
// C09

#[derive(Clone, Debug)]
enum EncItem {
    Msg(SMessage),
    Avp(SAvp),
}

fn enc_menu() -> Vec<(&'static str, EncItem)> {
    let mt = SAvp::Plain { attr: 0, val: SVal::MessageType(1) };
    let ctl = |avps: Vec<SAvp>| {
        EncItem::Msg(SMessage::Control {
            length: 0,
            tid: gen::TID,
            sid: gen::SID,
            ns: gen::NS,
            nr: gen::NR,
            avps,
        })
    };
    let data = |prio, length, ns_nr, offset, n: usize| {
        EncItem::Msg(SMessage::Data {
            prio,
            length,
            tid: gen::TID,
            sid: gen::SID,
            ns_nr,
            offset,
            data: ramp(n),
        })
    };
    vec![
        ("control-zlb", ctl(vec![])),
        ("control-1", ctl(vec![mt.clone()])),
        ("control-3", ctl(vec![mt.clone(), vgen::canonical(7), vgen::canonical(3)])),
        ("control-max-avp", ctl(vec![mt.clone(), SAvp::Plain { attr: 7, val: SVal::Bytes(ramp(1017)) }])),
        ("control-hidden", ctl(vec![mt.clone(), SAvp::Hidden { attr: 11, value: ramp(32) }])),
        ("data-plain", data(false, None, None, None, 3)),
        ("data-all", data(true, Some(19), Some((gen::NS, gen::NR)), Some(1), 5)),
        ("avp-message-type", EncItem::Avp(mt)),
        ("avp-u64", EncItem::Avp(vgen::canonical(5))),
        ("avp-300", EncItem::Avp(SAvp::Plain { attr: 11, val: SVal::Bytes(ramp(300)) })),
        ("avp-result-code", EncItem::Avp(vgen::canonical(1))),
        ("avp-hidden", EncItem::Avp(SAvp::Hidden { attr: 7, value: ramp(16) })),
        ("avp-empty", EncItem::Avp(vgen::canonical(39))),
        ("avp-call-errors", EncItem::Avp(vgen::canonical(34))),
        ("data-length-only", data(false, Some(13), None, None, 5)),
        ("data-offset-only", data(false, None, None, Some(2), 4)),
    ]
}

fn encode_item(item: &EncItem, w: &mut impl Writer) {
    match item {
        EncItem::Msg(m) => bridge::message_to_crate(m).unwrap().write(w),
        EncItem::Avp(a) => bridge::avp_to_crate(a).unwrap().write(w),
    }
}

#[derive(Clone, Debug, PartialEq, Eq, Hash)]
struct EState {
    depth: u8,
    prefix: u16,
    real: Vec<u8>,
    model: Vec<u8>,
    rec: Vec<u8>,
    bad: Option<String>,
}

struct EncModel {
    max_depth: u8,
    /// encoding of each menu entry into an empty writer
    alone: Vec<Vec<u8>>,
}

fn apply_enc(alone: &[Vec<u8>], s: &EState, a: u8) -> EState {
    let menu = enc_menu();
    let (name, item) = &menu[a as usize];
    let mut n = s.clone();
    n.depth += 1;
    let mut real = VecWriter { data: s.real.clone() };
    if let Err(p) = guarded(|| encode_item(item, &mut real)) {
        n.bad = Some(format!("encoding {name} into a writer holding {} octets panicked at {}: {}", s.real.len(), p.0, p.1));
        return n;
    }
    n.model.extend_from_slice(&alone[a as usize]);
    n.real = real.data;
    if n.real != n.model {
        let at = n.real.iter().zip(n.model.iter()).position(|(x, y)| x != y).unwrap_or(n.real.len().min(n.model.len()));
        n.bad = Some(format!(
            "encoding {name} into a writer holding {} octets: result differs from old content ++ encoding-into-empty at octet {at} ({}); lengths {} vs {}",
            s.real.len(),
            if at < s.real.len() { "inside the earlier content" } else { "inside the new value" },
            n.real.len(),
            n.model.len()
        ));
        return n;
    }
    // the same step through the recording writer
    let mut rw = RecordingWriter::with_prefix(&s.rec);
    let start = s.rec.len();
    if let Err(p) = guarded(|| encode_item(item, &mut rw)) {
        n.bad = Some(format!("encoding {name} into the recording writer panicked at {}: {}", p.0, p.1));
        return n;
    }
    if let Some(o) = rw.out_of_range.first() {
        n.bad = Some(format!("encoding {name}: positional overwrite of {} octets at offset {} issued at {} with only {} octets written", o.len, o.offset, o.site, o.writer_len));
        return n;
    }
    for o in &rw.overwrites {
        if o.offset < start || o.offset + o.len > o.writer_len {
            n.bad = Some(format!(
                "encoding {name} into a writer holding {start} octets: positional overwrite [{}, {}) issued at {} lies outside the value being encoded [{start}, {})",
                o.offset,
                o.offset + o.len,
                o.site,
                o.writer_len
            ));
            return n;
        }
    }
    n.rec = rw.data;
    if n.rec != n.real {
        n.bad = Some(format!("encoding {name}: recording writer and VecWriter disagree"));
    }
    n
}

impl Model for EncModel {
    type State = EState;
    type Action = u8;
    fn init_states(&self) -> Vec<EState> {
        [0usize, 1, 7, 300]
            .iter()
            .map(|n| {
                let p = vec![0xaau8; *n];
                EState {
                    depth: 0,
                    prefix: *n as u16,
                    real: p.clone(),
                    model: p.clone(),
                    rec: p,
                    bad: None,
                }
            })
            .collect()
    }
    fn actions(&self, s: &EState, out: &mut Vec<u8>) {
        if s.depth >= self.max_depth || s.bad.is_some() {
            return;
        }
        out.extend(0..enc_menu().len() as u8);
    }
    fn next_state(&self, s: &EState, a: u8) -> Option<EState> {
        TRANSITIONS.fetch_add(1, Ordering::Relaxed);
        Some(apply_enc(&self.alone, s, a))
    }
    fn properties(&self) -> Vec<Property<Self>> {
        vec![Property::always("encoding only appends", |_, s: &EState| s.bad.is_none())]
    }
}

fn alone_encodings() -> Result<Vec<Vec<u8>>, String> {
    let mut v = Vec::new();
    for (name, item) in enc_menu() {
        let mut w = VecWriter::new();
        guarded(|| encode_item(&item, &mut w)).map_err(|p| format!("encoding {name} into an empty writer panicked at {}: {}", p.0, p.1))?;
        // sanity: the reference encoder agrees on the length (C06 decides the octets)
        let mut s = Vec::new();
        let _ = match &item {
            EncItem::Msg(m) => spec::encode(m, &mut s),
            EncItem::Avp(a) => spec::encode_avp(a, &mut s),
        };
        v.push(w.data);
    }
    Ok(v)
}

fn enc_class(what: &str) -> &'static str {
    if what.contains("positional overwrite") {
        "overwrite-outside-value"
    } else if what.contains("inside the earlier content") {
        "earlier-content-changed"
    } else if what.contains("panicked") {
        "panics"
    } else {
        "appended-octets-differ"
    }
}

/// One encode history into ONE live `VecWriter` that first received `prefix` octets through
/// `write_bytes` (its capacity is whatever the library made it, and carries over).
fn live_enc_history(ctx: &mut Ctx, prefix: usize, items: &[u8], case: &dyn Fn() -> Value) {
    let menu = enc_menu();
    let alone = match alone_encodings() {
        Ok(a) => a,
        Err(e) => {
            ctx.violation("C09 encode-into-empty-panics".into(), e, 0, case);
            return;
        }
    };
    let mut w = VecWriter::new();
    let mut model = vec![0xaau8; prefix];
    if guarded(|| w.write_bytes(&model)).is_err() || w.data != model {
        // the writer itself is C18's business
        return;
    }
    for (d, i) in items.iter().enumerate() {
        let (name, item) = &menu[*i as usize];
        let before = model.len();
        let what = match guarded(|| encode_item(item, &mut w)) {
            Err(p) => Some(format!("encoding {name} into a live writer holding {before} octets panicked at {}: {}", p.0, p.1)),
            Ok(()) => {
                model.extend_from_slice(&alone[*i as usize]);
                if w.data != model {
                    let at = w.data.iter().zip(model.iter()).position(|(x, y)| x != y).unwrap_or(w.data.len().min(model.len()));
                    Some(format!(
                        "encoding {name} into a live writer holding {before} octets: result differs from old content ++ encoding-into-empty at octet {at} ({}); lengths {} vs {}",
                        if at < before { "inside the earlier content" } else { "inside the new value" },
                        w.data.len(),
                        model.len()
                    ))
                } else if w.len() != model.len() {
                    Some(format!("encoding {name}: writer reports len() {} for {} octets", w.len(), model.len()))
                } else {
                    None
                }
            }
        };
        if let Some(what) = what {
            if d + 1 == items.len() {
                ctx.violation(
                    format!("C09 {} {}", enc_class(&what), name.split('-').next().unwrap_or("")),
                    format!("prefix of {prefix} octets, then {:?} on one live writer: {what}", items.iter().map(|a| menu[*a as usize].0).collect::<Vec<_>>()),
                    items.len(),
                    case,
                );
            }
            return;
        }
    }
}

/// Pre-pass: every encode history up to `depth` as an attributed case of the ENUM engine.
fn live_enc_histories(ctx: &mut Ctx, depth: usize) {
    let n = enc_menu().len() as u8;
    let mut count = 0u64;
    for prefix in [0usize, 1, 7, 300] {
        let mut frontier: Vec<Vec<u8>> = vec![vec![]];
        for _ in 0..depth {
            let mut next = Vec::new();
            for path in &frontier {
                for a in 0..n {
                    let mut items = path.clone();
                    items.push(a);
                    let i2 = items.clone();
                    let desc = move || json!({"kind":"enc-history","live":true,"prefix":prefix,"items":i2});
                    count += 1;
                    ctx.case(&desc, |ctx| live_enc_history(ctx, prefix, &items, &desc));
                    next.push(items);
                }
            }
            frontier = next;
        }
    }
    ctx.states += count;
    ctx.transitions += count;
    ctx.extra.insert(format!("live_encode_histories_to_depth_{depth}"), json!(count));
}

fn run_c09(ctx: &mut Ctx) {
    if ctx.shard == 0 {
        run_c09_histories(ctx);
    }
    // position independence over the whole value space, all workers
    super::values::run_values(ctx);
}

fn run_c09_histories(ctx: &mut Ctx) {
    let depth = if ctx.tier.thorough() { 4 } else { 3 };
    // pre-pass of the ENUM engine: short histories on one live writer as attributed cases
    live_enc_histories(ctx, if ctx.tier.thorough() { 3 } else { 2 });
    let alone = match alone_encodings() {
        Ok(a) => a,
        Err(e) => {
            ctx.violation("C09 encode-into-empty-panics".into(), e, 0, || json!({"kind":"enc-history","prefix":0,"items":[]}));
            return;
        }
    };
    // far positions: the same menu encoded at writer positions that cannot be reached by
    // allocating (2^16, 2^24, 2^31, 2^32 ... on a Writer that only pretends to hold the earlier
    // octets), sequences of up to two values, plus real VecWriters holding 64 KiB +- a few octets
    far_positions(ctx, &alone);
    if ctx.only_case.is_some() || ctx.stop_after.is_some() {
        return;
    }
    if ctx.start_after > 0 {
        ctx.capped = Some("state-graph search skipped: the worker was resumed after a fatal case in the pre-pass".into());
        return;
    }
    let a2 = alone.clone();
    let n = run_model(
        ctx,
        "encode",
        move || EncModel {
            max_depth: depth,
            alone: a2.clone(),
        },
        |last: &EState, actions: &[u8]| {
            let menu = enc_menu();
            let what = last.bad.clone().unwrap_or_default();
            let lastname = actions.last().map(|a| menu[*a as usize].0).unwrap_or("");
            let class = if what.contains("positional overwrite") {
                "overwrite-outside-value"
            } else if what.contains("inside the earlier content") {
                "earlier-content-changed"
            } else if what.contains("panicked") {
                "panics"
            } else {
                "appended-octets-differ"
            };
            (
                format!("C09 {class} {}", lastname.split('-').next().unwrap_or("")),
                format!("prefix of {} octets, then {:?}: {what}", last.prefix, actions.iter().map(|a| menu[*a as usize].0).collect::<Vec<_>>()),
                json!({"kind":"enc-history","prefix":last.prefix,"items":actions}),
            )
        },
    );
    if n > 4 {
        ctx.guard("nonempty-prefix");
        ctx.guard("prefix-over-64-octets");
        ctx.guard("sequence-of-3");
        ctx.guard("overwrite-recorded");
    }
    ctx.nontrivial_direct = ctx.states.saturating_sub(4);
    ctx.tally("histories");
    {
        let m = EncModel { max_depth: depth, alone: alone.clone() };
        let mut st = m.init_states().into_iter().find(|x| x.prefix == 7).unwrap();
        for a in [2u8, 6, 9] {
            st = apply_enc(&m.alone, &st, a);
        }
        ctx.samples.push(json!({"kind":"enc-history","prefix":7,"items":[2, 6, 9], "names":["control-3","data-all","avp-300"],
            "reached": {"writer_octets": st.real.len(), "first_octets": hex(&st.real[..st.real.len().min(24)]), "conforms": st.bad.is_none()}}));
    }
    let _ = alone;
}

pub const FAR_BASES: [usize; 17] = [
    255, 256, 65_534, 65_535, 65_536, 65_537, 65_600, (1 << 24) - 1, 1 << 24, (1 << 31) - 1, 1 << 31, (1usize << 32) - 2, (1usize << 32) - 1, 1usize << 32, (1usize << 32) + 1, 1usize << 40, usize::MAX >> 1,
];

fn check_far(ctx: &mut Ctx, alone: &[Vec<u8>], base: usize, items: &[u8], real: bool) {
    let menu = enc_menu();
    let names: Vec<&str> = items.iter().map(|i| menu[*i as usize].0).collect();
    let case = || json!({"kind":"far-position","base":base,"items":items,"real":real});
    let mut want: Vec<u8> = Vec::new();
    if real {
        // a real VecWriter that holds `base` octets
        let mut w = VecWriter { data: vec![0x5a; base] };
        for i in items {
            if let Err(p) = guarded(|| encode_item(&menu[*i as usize].1, &mut w)) {
                ctx.violation(format!("C09 far-position panics {}", names.last().unwrap_or(&"")), format!("VecWriter holding {base} octets, encoding {names:?}: panic at {}: {}", p.0, p.1), items.len(), case);
                return;
            }
            want.extend_from_slice(&alone[*i as usize]);
        }
        if w.data[..base].iter().any(|b| *b != 0x5a) {
            let at = w.data[..base].iter().position(|b| *b != 0x5a).unwrap();
            ctx.violation("C09 far-position earlier-content-changed".into(), format!("VecWriter holding {base} octets, encoding {names:?}: octet {at} of the earlier content was overwritten"), items.len(), case);
        } else if w.data[base..] != want[..] {
            ctx.violation("C09 far-position appended-octets-differ".into(), format!("VecWriter holding {base} octets, encoding {names:?}: appended octets differ from the encodings into an empty writer"), items.len(), case);
        }
        return;
    }
    let mut w = RecordingWriter::at_position(base);
    for i in items {
        let start = w.len();
        let seen = w.overwrites.len();
        if let Err(p) = guarded(|| encode_item(&menu[*i as usize].1, &mut w)) {
            ctx.violation(format!("C09 far-position panics {}", names.last().unwrap_or(&"")), format!("writer position {base}, encoding {names:?}: panic at {}: {}", p.0, p.1), items.len(), case);
            return;
        }
        want.extend_from_slice(&alone[*i as usize]);
        if let Some(o) = w.out_of_range.first() {
            ctx.violation(
                format!("C09 far-position overwrite-outside-value {}", menu[*i as usize].0.split('-').next().unwrap_or("")),
                format!("writer position {start}: encoding {} issues a positional overwrite of {} octets at offset {} (at {}), outside the value being encoded [{start}, {})", menu[*i as usize].0, o.len, o.offset, o.site, o.writer_len),
                items.len(),
                case,
            );
            return;
        }
        if let Some(o) = w.overwrites[seen..].iter().find(|o| o.offset < start) {
            ctx.violation(
                format!("C09 far-position overwrite-outside-value {}", menu[*i as usize].0.split('-').next().unwrap_or("")),
                format!("writer position {start}: overwrite at offset {} lies before the value being encoded", o.offset),
                items.len(),
                case,
            );
            return;
        }
    }
    if w.data != want {
        ctx.violation("C09 far-position appended-octets-differ".into(), format!("writer position {base}, encoding {names:?}: appended octets differ from the encodings into an empty writer"), items.len(), case);
    }
}

fn far_case(ctx: &mut Ctx, alone: &[Vec<u8>], base: usize, items: &[u8], real: bool) {
    let i2 = items.to_vec();
    let desc = move || json!({"kind":"far-position","base":base,"items":i2,"real":real});
    ctx.case(&desc, |ctx| check_far(ctx, alone, base, items, real));
}

/// One AVP value of the list menu encoded after `base` earlier octets (a real `VecWriter`, or a
/// writer that only pretends to hold them).
fn far_avp_case(ctx: &mut Ctx, k: usize, a: &SAvp, base: usize, real: bool) {
    let case = || json!({"kind":"far-position-avp","menu_index":k,"base":base,"real":real});
    let c = bridge::avp_to_crate(a).unwrap();
    let mut alone_w = VecWriter::new();
    if guarded(|| c.write(&mut alone_w)).is_err() {
        return;
    }
    if real {
        let mut w = VecWriter { data: vec![0x5a; base] };
        let r = guarded(|| c.write(&mut w));
        if r.is_err() || w.data[..base].iter().any(|b| *b != 0x5a) || w.data[base..] != alone_w.data[..] {
            ctx.violation(format!("C09 avp-kind-at-prefix attr{}", a.attr()), format!("{a:?} encoded into a writer holding {base} octets: earlier content changed or appended octets differ from the encoding into an empty writer"), base, case);
        }
    } else {
        let mut w = RecordingWriter::at_position(base);
        let r = guarded(|| c.write(&mut w));
        let bad_overwrite = w.out_of_range.first().or_else(|| w.overwrites.iter().find(|o| o.offset < base)).cloned();
        if r.is_err() || bad_overwrite.is_some() || w.data != alone_w.data {
            ctx.violation(
                format!("C09 avp-kind-at-far-position attr{}", a.attr()),
                format!("{a:?} encoded at writer position {base}: {}", match bad_overwrite { Some(o) => format!("positional overwrite at {} outside the value", o.offset), None => "appended octets differ / panic".into() }),
                k,
                case,
            );
        }
    }
}

fn far_positions(ctx: &mut Ctx, alone: &[Vec<u8>]) {
    let n = enc_menu().len() as u8;
    let mut count = 0u64;
    for base in FAR_BASES {
        for a in 0..n {
            far_case(ctx, alone, base, &[a], false);
            count += 1;
            for b in 0..n {
                far_case(ctx, alone, base, &[a, b], false);
                count += 1;
            }
        }
    }
    for base in [65_530usize, 65_534, 65_535, 65_536, 65_537, 70_000, 131_071, 131_072] {
        for a in 0..n {
            far_case(ctx, alone, base, &[a], true);
            far_case(ctx, alone, base, &[a, (a + 3) % n], true);
            count += 2;
        }
    }
    // every AVP value of the list menu (all 39 kinds, optional parts, hidden): one step at real
    // prefixes of 1, 7, 300 octets and at every far position
    for (k, a) in vgen::list_menu().iter().enumerate() {
        for base in [1usize, 7, 300] {
            let desc = move || json!({"kind":"far-position-avp","menu_index":k,"base":base,"real":true});
            ctx.case(&desc, |ctx| far_avp_case(ctx, k, a, base, true));
            count += 1;
        }
        for base in FAR_BASES {
            let desc = move || json!({"kind":"far-position-avp","menu_index":k,"base":base,"real":false});
            ctx.case(&desc, |ctx| far_avp_case(ctx, k, a, base, false));
            count += 1;
        }
    }
    ctx.states += count;
    ctx.transitions += count;
    ctx.executions += count;
    ctx.nontrivial_direct += count;
    ctx.guard("far-positions");
    ctx.extra.insert("far_position_cases".into(), json!(count));
}

fn replay_c09(ctx: &mut Ctx, v: &Value) {
    if !matches!(v["kind"].as_str(), Some("enc-history") | Some("far-position") | Some("far-position-avp")) {
        return super::values::replay_values(ctx, v);
    }
    if v["kind"].as_str() == Some("far-position-avp") {
        let k = v["menu_index"].as_u64().unwrap_or(0) as usize;
        let base = v["base"].as_u64().unwrap_or(0) as usize;
        let menu = vgen::list_menu();
        let k = k % menu.len();
        far_avp_case(ctx, k, &menu[k], base, v["real"].as_bool().unwrap_or(false));
        return;
    }
    if v["kind"].as_str() == Some("far-position") {
        let alone = match alone_encodings() {
            Ok(a) => a,
            Err(e) => {
                ctx.violation("C09 encode-into-empty-panics".into(), e, 0, || v.clone());
                return;
            }
        };
        let base = v["base"].as_u64().unwrap_or(0) as usize;
        let items: Vec<u8> = v["items"].as_array().map(|a| a.iter().map(|x| x.as_u64().unwrap_or(0) as u8).collect()).unwrap_or_default();
        check_far(ctx, &alone, base, &items, v["real"].as_bool().unwrap_or(false));
        return;
    }
    let prefix = v["prefix"].as_u64().unwrap_or(0) as u16;
    let items: Vec<u8> = v["items"].as_array().map(|a| a.iter().map(|x| x.as_u64().unwrap_or(0) as u8).collect()).unwrap_or_default();
    if v["live"].as_bool() == Some(true) {
        live_enc_history(ctx, prefix as usize, &items, &|| v.clone());
        return;
    }
    let alone = match alone_encodings() {
        Ok(a) => a,
        Err(e) => {
            ctx.violation("C09 encode-into-empty-panics".into(), e, 0, || v.clone());
            return;
        }
    };
    let m = EncModel { max_depth: 99, alone };
    let Some(mut s) = m.init_states().into_iter().find(|s| s.prefix == prefix) else {
        eprintln!("machinery: bad prefix");
        std::process::exit(2);
    };
    let menu = enc_menu();
    for i in items {
        s = apply_enc(&m.alone, &s, i);
        println!("  {}: {}", menu[i as usize].0, s.bad.clone().unwrap_or_else(|| "ok".into()));
        if let Some(b) = &s.bad {
            ctx.violation("C09 replay".into(), b.clone(), 0, || v.clone());
            return;
        }
    }
}
