//! C15 (all-or-nothing acceptance, complete ordered error list), C16 (enumerated code points),
//! C20 (single faults are named with the offending value; error rendering).

use super::*;
use crate::bridge;
use crate::ctx::{fnv, guarded, Ctx};
use crate::explore::{explore, Chooser};
use crate::gen::{self, avp_record, control_message, good_message_type, payload_for, Content, RecClass};
use crate::run::{self, MsgOut, ReaderKind};
use crate::spec::{self, hex, unhex, AvpRej, SAvp, SMessage, SVal};
use rl2tp::avp::types::result_code::CodeValue;
use rl2tp::avp::AVP;
use rl2tp::common::{DecodeError, VecWriter};
use serde_json::{json, Value};

pub fn defs() -> Vec<PropDef> {
    vec![
        PropDef {
            id: "C15",
            profiles: BOTH,
            shards: sixteen,
            run: run_c15,
            replay: replay_c15,
            post: |_, g, _| {
                for k in ["accepted", "rejected-one-error", "rejected-several-errors", "first-not-message-type", "stopped-at-unusable-length", "zlb"] {
                    if !g.contains_key(k) {
                        return Err(format!("C15 guard {k} never hit"));
                    }
                }
                Ok(())
            },
            rule: "ENUM product: every sequence of up to 4 (quick) / 5 (thorough) records over the 23-entry record menu (10 good classes, 10 undecodable classes incl. M-bit-clear and hidden-flag variants, 2 unusable-length classes, stray octets), placed in a control message as is and after a valid Message Type; expected acceptance and the expected error list are derived from the record classes, each expected error being the one try_read_greedy reports for that record decoded on its own. Non-trivial: the body holds at least one record.",
            bounds: |t| json!({"record_menu": gen::record_menu().len(), "max_records": if t.thorough() {5} else {4}, "option_sets": ["strict", "none"]}),
            assumptions: COMMON_ASSUMPTIONS,
            fd_monitor: false,
            mem_gb: mem4,
            watchdog_s: wd,
            deadline_s: no_deadline,
        },
        PropDef {
            id: "C16",
            profiles: BOTH,
            shards: sixteen,
            run: run_c16,
            replay: replay_c16,
            post: |_, g, _| {
                for k in ["message-type-accepted", "message-type-rejected", "error-type-accepted", "error-type-rejected", "proxy-type-accepted", "proxy-type-rejected", "attr-assigned", "attr-unassigned", "stopccn-convertible", "stopccn-raw", "cdn-convertible", "cdn-raw"] {
                    if !g.contains_key(k) {
                        return Err(format!("C16 guard {k} never hit"));
                    }
                }
                Ok(())
            },
            rule: "Complete enumeration of all 65 536 values of each enumerated field: message type, general error type, proxy authen type (through a control message, a bare AVP list and the type's own try_read), result code (Stop-CCN and CDN views), attribute number (with a payload valid for that number), plus every named value of every enumeration. Non-trivial: every case (each is a distinct code point of a distinct field).",
            bounds: |_| json!({"values_per_field": 65536, "fields": ["message type", "error type", "proxy authen type", "result code/StopCCN", "result code/CDN", "attribute type"]}),
            assumptions: COMMON_ASSUMPTIONS,
            fd_monitor: false,
            mem_gb: mem4,
            watchdog_s: wd,
            deadline_s: no_deadline,
        },
        PropDef {
            id: "C20",
            profiles: BOTH,
            shards: sixteen,
            run: run_c20,
            replay: replay_c20,
            post: |_, g, _| {
                for k in ["fault-version", "fault-unknown-attr", "fault-message-type", "fault-vendor", "fault-offset", "fault-error-type", "fault-truncated", "fault-utf8", "render-named", "render-numeric"] {
                    if !g.contains_key(k) {
                        return Err(format!("C20 guard {k} never hit"));
                    }
                }
                Ok(())
            },
            rule: "ENUM: valid templates x single-fault injections x every offending value (15 wrong version nibbles x flag variants, 65 497 unassigned attribute numbers, 65 522 unassigned message-type codes, 65 535 vendor ids, every too-large offset size, 65 527 bad error-type codes, every truncation of each sized kind, every invalid-UTF-8 class in each string position), the result must be exactly Err([variant(x)]); and every DecodeError variant x every payload value rendered with to_string(), AVP-related renderings cross-checked against the dispatch table on all 65 536 numbers. Non-trivial: every case.",
            bounds: |_| json!({"faults": 8, "values": "every offending value of each fault", "render": "26 variants x all payload values"}),
            assumptions: COMMON_ASSUMPTIONS,
            fd_monitor: false,
            mem_gb: mem4,
            watchdog_s: wd,
            deadline_s: no_deadline,
        },
    ]
}

/// Decode through the monitored reader; `None` when the run panicked or went out of contract
/// (reported by C01/C02, nothing to compare here).
pub fn dec_msg(bytes: &[u8], opts: Option<u8>) -> Option<MsgOut> {
    let (r, obs) = run::decode_msg(ReaderKind::R2a, bytes, opts, false);
    if !obs.mon.unwrap().violations.is_empty() {
        return None;
    }
    r.ok()
}

pub fn dec_avps(bytes: &[u8]) -> Option<run::AvpsOut> {
    let (r, obs) = run::decode_avps(ReaderKind::R2a, bytes, false);
    if !obs.mon.unwrap().violations.is_empty() {
        return None;
    }
    r.ok()
}

pub fn err_in_class(e: &DecodeError, r: &AvpRej) -> bool {
    match (r, e) {
        (AvpRej::BadLength(_), DecodeError::InvalidAVPLength(_)) => true,
        (AvpRej::Vendor(v), DecodeError::UnsupportedVendorId(x)) => v == x,
        (AvpRej::Unknown(a), DecodeError::UnknownAvp(x)) => a == x,
        (AvpRej::Incomplete(a), DecodeError::IncompleteAVP(x)) => a == x,
        (AvpRej::BadMessageType(c), DecodeError::UnknownMessageType(x)) => c == x,
        (AvpRej::BadErrorType(c), DecodeError::InvalidResultCodeErrorType(x)) => c == x,
        // the crate reports a bad proxy authen type through IncompleteAVP(29); no property pins it
        (AvpRej::BadProxyAuthenType(_), _) => true,
        (AvpRej::Utf8(a), DecodeError::InvalidUtf8(x)) => a == x,
        _ => false,
    }
}

// ---------------------------------------------------------------------------------------------
// C15

fn seq_json(idx: &[usize], with_mt: bool, opts: u8) -> Value {
    json!({"kind":"recseq","records":idx,"after_message_type":with_mt,"opts":opts})
}

fn check_seq(ctx: &mut Ctx, idx: &[usize], with_mt: bool, opts: u8) {
    let menu = gen::record_menu();
    // stray octets anywhere but last merge with the next record's header: out of this oracle's
    // domain (C05 covers those inputs byte-wise)
    if idx.iter().enumerate().any(|(i, r)| menu[*r].class == RecClass::Stray && i + 1 != idx.len()) {
        ctx.tally("skipped-stray-not-last");
        return;
    }
    let mut body = Vec::new();
    let mut recs: Vec<usize> = Vec::new();
    if with_mt {
        body.extend_from_slice(&good_message_type());
        recs.push(0);
    }
    for r in idx {
        body.extend_from_slice(&menu[*r].bytes);
        recs.push(*r);
    }
    let msg = control_message(&body);
    let Some(out) = dec_msg(&msg, Some(opts)) else {
        ctx.tally("no-result");
        return;
    };
    let viol = |ctx: &mut Ctx, sig: &str, detail: String| {
        ctx.violation(format!("C15 {sig}"), detail, idx.len() * 2 + with_mt as usize, || seq_json(idx, with_mt, opts));
    };
    // records the list parser sees: up to and including the first unusable one, no stray
    let mut seen: Vec<usize> = Vec::new();
    for r in &recs {
        if menu[*r].class == RecClass::Stray {
            break;
        }
        seen.push(*r);
        if menu[*r].class == RecClass::Unusable {
            ctx.guard("stopped-at-unusable-length");
            break;
        }
    }
    if seen.is_empty() {
        ctx.guard("zlb");
        if out.is_err() {
            viol(ctx, "zlb-rejected", format!("a body without any AVP was rejected: {out:?}"));
        }
        ctx.tally("zlb");
        return;
    }
    ctx.note_nontrivial(fnv(&msg, opts as u64));
    if seen[0] != 0 {
        ctx.guard("first-not-message-type");
        match &out {
            Ok(m) => viol(ctx, "accepted-without-leading-message-type", format!("first record is {}, decoded {m:?}", menu[seen[0]].name)),
            Err(e) if e.is_empty() => viol(ctx, "empty-error-list", "rejected with an empty error list".into()),
            Err(_) => (),
        }
        ctx.tally("first-not-message-type");
        return;
    }
    // expected errors: one per bad record (by the specification's verdict on the record), in
    // wire order; where the record decoded on its own yields exactly one error, that error
    let mut expected: Vec<(usize, Option<DecodeError>, AvpRej)> = Vec::new();
    for r in &seen {
        if menu[*r].class == RecClass::Good {
            continue;
        }
        let (items, _) = spec::decode_avps(&menu[*r].bytes);
        let rej = match items.first().map(|i| &i.res) {
            Some(Err(r)) => r.clone(),
            other => {
                eprintln!("machinery: menu record {} is not rejected by the specification: {other:?}", menu[*r].name);
                std::process::exit(2);
            }
        };
        let alone = match dec_avps(&menu[*r].bytes) {
            Some(mut v) if v.len() == 1 && v[0].is_err() => Some(v.remove(0).unwrap_err()),
            _ => None,
        };
        expected.push((*r, alone, rej));
    }
    match &out {
        Ok(m) => {
            if !expected.is_empty() {
                viol(
                    ctx,
                    &format!("accepted-with-undecodable-record {}", menu[expected[0].0].name),
                    format!("records {:?}; decoded {m:?}", recs.iter().map(|r| menu[*r].name).collect::<Vec<_>>()),
                );
            } else {
                ctx.guard("accepted");
                if let SMessage::Control { avps, .. } = m {
                    if avps.len() != seen.len() {
                        viol(ctx, "accepted-avp-count", format!("{} AVPs returned for {} good records", avps.len(), seen.len()));
                    }
                }
            }
            ctx.tally("accepted");
        }
        Err(e) => {
            if expected.is_empty() {
                viol(
                    ctx,
                    "rejected-all-good-records",
                    format!("records {:?} rejected with {e:?}", recs.iter().map(|r| menu[*r].name).collect::<Vec<_>>()),
                );
            } else if e.len() != expected.len() {
                viol(
                    ctx,
                    &format!("error-count {}-for-{}-bad-records", e.len().min(9), expected.len()),
                    format!(
                        "records {:?}: errors {e:?}, expected one per bad record {:?}",
                        recs.iter().map(|r| menu[*r].name).collect::<Vec<_>>(),
                        expected.iter().map(|x| (menu[x.0].name, &x.2)).collect::<Vec<_>>()
                    ),
                );
            } else {
                for (i, (r, want, rej)) in expected.iter().enumerate() {
                    if let Some(want) = want {
                        if &e[i] != want {
                            viol(
                                ctx,
                                &format!("error-attribution {}", menu[*r].name),
                                format!("error {i} is {:?}, the record alone gives {want:?}; full list {e:?}", e[i]),
                            );
                            break;
                        }
                    }
                    if !err_in_class(&e[i], rej) {
                        viol(ctx, &format!("error-class {}", menu[*r].name), format!("error {:?} is not of the specified class {rej:?}", e[i]));
                        break;
                    }
                }
            }
            if expected.len() == 1 {
                ctx.guard("rejected-one-error");
            } else if expected.len() > 1 {
                ctx.guard("rejected-several-errors");
            }
            ctx.tally(&format!("rejected-{}-errors", expected.len().min(5)));
        }
    }
    ctx.sample(|| seq_json(idx, with_mt, opts));
}

fn run_c15(ctx: &mut Ctx) {
    let tier = ctx.tier;
    let maxlen = if tier.thorough() { 5 } else { 4 };
    let n = gen::record_menu().len() as u32;
    let st = explore(None, |c: &mut Chooser| {
        let k = c.pick(maxlen + 1) as usize;
        let mut idx = Vec::with_capacity(k);
        for i in 0..k {
            idx.push(c.pick(n) as usize);
            if i == 1 && !ctx.mine_key(c.prefix_key()) {
                return true;
            }
        }
        if k < 2 && ctx.shard != 0 {
            return true;
        }
        for with_mt in [true, false] {
            for opts in [spec::OPT_STRICT, 0] {
                let (i2, w, o) = (idx.clone(), with_mt, opts);
                let desc = move || seq_json(&i2, w, o);
                ctx.case(&desc, |ctx| check_seq(ctx, &idx, with_mt, opts));
            }
        }
        true
    });
    ctx.states += st.states;
    ctx.transitions += st.transitions;
    // long bodies: every record class repeated / cycled 6..40 times (a cap on the error list,
    // or a collapse of identical errors, needs more records than the product above holds)
    if ctx.shard == 0 {
        let n = gen::record_menu().len();
        let menu = gen::record_menu();
        for count in [6usize, 9, 12, 17, 33, 40] {
            for r in 0..n {
                if menu[r].class == RecClass::Stray || menu[r].class == RecClass::Unusable {
                    continue;
                }
                let same: Vec<usize> = vec![r; count];
                let cycled: Vec<usize> = (0..count).map(|i| (r + i) % 20).collect();
                for idx in [same, cycled] {
                    ctx.states += 1;
                    ctx.transitions += 1;
                    let i2 = idx.clone();
                    let desc = move || seq_json(&i2, true, spec::OPT_STRICT);
                    ctx.case(&desc, |ctx| check_seq(ctx, &idx, true, spec::OPT_STRICT));
                }
            }
        }
    }
}

fn replay_c15(ctx: &mut Ctx, v: &Value) {
    let idx: Vec<usize> = v["records"].as_array().map(|a| a.iter().map(|x| x.as_u64().unwrap_or(0) as usize).collect()).unwrap_or_default();
    let with_mt = v["after_message_type"].as_bool().unwrap_or(true);
    let opts = v["opts"].as_u64().unwrap_or(7) as u8;
    let menu = gen::record_menu();
    println!("  records: {:?}", idx.iter().map(|r| menu[*r].name).collect::<Vec<_>>());
    let desc = || seq_json(&idx, with_mt, opts);
    ctx.case(&desc, |ctx| check_seq(ctx, &idx, with_mt, opts));
}

// ---------------------------------------------------------------------------------------------
// C16

fn code_json(field: &str, x: u32) -> Value {
    json!({"kind":"code","field":field,"x":x})
}

fn reencode(a: &SAvp) -> Option<Vec<u8>> {
    let c = bridge::avp_to_crate(a)?;
    let mut w = VecWriter::new();
    guarded(|| c.write(&mut w)).ok()?;
    Some(w.data)
}

fn check_code(ctx: &mut Ctx, field: &str, x: u16) {
    let viol = |ctx: &mut Ctx, sig: String, detail: String| {
        ctx.violation(format!("C16 {field} {sig}"), detail, x as usize, || code_json(field, x as u32));
    };
    match field {
        "message-type" | "error-type" | "proxy-type" => {
            let (attr, payload, assigned): (u16, Vec<u8>, bool) = match field {
                "message-type" => (0, x.to_be_bytes().to_vec(), spec::message_type_ok(x)),
                "error-type" => (1, [&[0u8, 1][..], &x.to_be_bytes()[..]].concat(), x <= spec::ERROR_TYPE_MAX),
                _ => (29, x.to_be_bytes().to_vec(), x <= spec::PROXY_AUTHEN_TYPE_MAX),
            };
            ctx.guard(match (field, assigned) {
                ("message-type", true) => "message-type-accepted",
                ("message-type", false) => "message-type-rejected",
                ("error-type", true) => "error-type-accepted",
                ("error-type", false) => "error-type-rejected",
                (_, true) => "proxy-type-accepted",
                (_, false) => "proxy-type-rejected",
            });
            let rec = avp_record(0x01, 0, attr, &payload);
            // three routes: bare list, own try_read, inside a control message (after a Message Type
            // unless the field is the message type itself)
            let bare = dec_avps(&rec);
            let (own, obs) = run::decode_type(ReaderKind::R2a, attr, &payload, false);
            let own = if obs.mon.unwrap().violations.is_empty() { own.ok().flatten() } else { None };
            let body = if attr == 0 { rec.clone() } else { [good_message_type(), rec.clone()].concat() };
            let inmsg = dec_msg(&control_message(&body), Some(spec::OPT_STRICT));
            let (Some(bare), Some(own), Some(inmsg)) = (bare, own, inmsg) else {
                ctx.tally("no-result");
                return;
            };
            let acc_bare = bare.len() == 1 && bare[0].is_ok();
            let acc_own = own.is_ok();
            let acc_msg = inmsg.is_ok();
            if acc_bare != assigned || acc_own != assigned || acc_msg != assigned {
                viol(
                    ctx,
                    if assigned { "assigned-code-rejected".into() } else { "unassigned-code-accepted".into() },
                    format!("code {x}: assigned={assigned}, try_read_greedy accepts={acc_bare}, type try_read accepts={acc_own}, control message accepts={acc_msg}"),
                );
                return;
            }
            if assigned {
                let got = bare[0].as_ref().unwrap();
                let want = spec::decode_payload(attr, &payload).map(|val| SAvp::Plain { attr, val });
                if Ok(got) != want.as_ref() {
                    viol(ctx, "decoded-value".into(), format!("code {x} decoded as {got:?}, specified {want:?}"));
                }
                if own.as_ref().ok() != Some(got) {
                    viol(ctx, "routes-disagree".into(), format!("code {x}: list gives {got:?}, type try_read gives {own:?}"));
                }
                // accepted code re-encodes to itself
                match reencode(got) {
                    Some(b) if b == rec => (),
                    other => viol(ctx, "reencode".into(), format!("code {x}: decoded {got:?} re-encodes to {:?}, wire was {}", other.map(|b| hex(&b)), hex(&rec))),
                }
            }
            ctx.tally(if assigned { "assigned" } else { "unassigned" });
        }
        "stop-ccn" | "cdn" => {
            let cv = CodeValue::from(x);
            if u16::from(cv) != x {
                viol(ctx, "raw-not-kept".into(), format!("CodeValue::from({x}) converts back to {}", u16::from(cv)));
            }
            if field == "stop-ccn" {
                let conv = cv.as_stop_ccn();
                let assigned = x <= spec::STOP_CCN_MAX;
                ctx.guard(if assigned { "stopccn-convertible" } else { "stopccn-raw" });
                match (&conv, assigned) {
                    (Ok(v), true) => {
                        if bridge::stop_ccn_code(v) != x {
                            viol(ctx, "wrong-variant".into(), format!("code {x} converts to {v:?} whose RFC number is {}", bridge::stop_ccn_code(v)));
                        }
                        if u16::from(CodeValue::from(*v)) != x {
                            viol(ctx, "variant-encodes-differently".into(), format!("{v:?} encodes as {}", u16::from(CodeValue::from(*v))));
                        }
                    }
                    (Err(_), false) => (),
                    (Ok(v), false) => viol(ctx, "unassigned-convertible".into(), format!("unassigned Stop-CCN code {x} converts to {v:?}")),
                    (Err(e), true) => viol(ctx, "assigned-not-convertible".into(), format!("Stop-CCN code {x}: {e}")),
                }
            } else {
                let conv = cv.as_cdn();
                let assigned = x <= spec::CDN_MAX;
                ctx.guard(if assigned { "cdn-convertible" } else { "cdn-raw" });
                match (&conv, assigned) {
                    (Ok(v), true) => {
                        if bridge::cdn_code(v) != x {
                            viol(ctx, "wrong-variant".into(), format!("code {x} converts to {v:?} whose RFC number is {}", bridge::cdn_code(v)));
                        }
                        if u16::from(CodeValue::from(*v)) != x {
                            viol(ctx, "variant-encodes-differently".into(), format!("{v:?} encodes as {}", u16::from(CodeValue::from(*v))));
                        }
                    }
                    (Err(_), false) => (),
                    (Ok(v), false) => viol(ctx, "unassigned-convertible".into(), format!("unassigned CDN code {x} converts to {v:?}")),
                    (Err(e), true) => viol(ctx, "assigned-not-convertible".into(), format!("CDN code {x}: {e}")),
                }
            }
            // the raw code survives a wire round trip inside a Result Code AVP
            let rec = avp_record(0x01, 0, 1, &x.to_be_bytes());
            match dec_avps(&rec) {
                Some(v) if v.len() == 1 => match &v[0] {
                    Ok(a) => {
                        if *a != (SAvp::Plain { attr: 1, val: SVal::ResultCode { code: x, error: None } }) {
                            viol(ctx, "wire-value".into(), format!("result code {x} decoded as {a:?}"));
                        } else if reencode(a).as_deref() != Some(&rec[..]) {
                            viol(ctx, "wire-reencode".into(), format!("result code {x} does not re-encode to itself"));
                        }
                    }
                    Err(e) => viol(ctx, "wire-rejected".into(), format!("result code {x} rejected: {e:?}")),
                },
                _ => ctx.tally("no-result"),
            }
            ctx.tally("result-code");
        }
        "attribute" => {
            let kind = spec::kind_of(x);
            ctx.guard(if kind.is_some() { "attr-assigned" } else { "attr-unassigned" });
            let len = kind.map(|k| spec::min_payload(k.0)).unwrap_or(4) + 3;
            let payload = payload_for(x, len, Content::Valid);
            let rec = avp_record(0x01, 0, x, &payload);
            let Some(v) = dec_avps(&rec) else {
                ctx.tally("no-result");
                return;
            };
            if v.len() != 1 {
                viol(ctx, "list-length".into(), format!("one record decoded to {} elements", v.len()));
                return;
            }
            match (&v[0], kind) {
                (Ok(a), Some(_)) => {
                    let want = spec::decode_payload(x, &payload).map(|val| SAvp::Plain { attr: x, val });
                    if Ok(a) != want.as_ref() {
                        viol(ctx, "dispatch".into(), format!("attribute {x} decoded as {a:?}, specified {want:?}"));
                    } else if a.attr() != x {
                        viol(ctx, "attr-number".into(), format!("attribute {x} decoded as kind {}", a.attr()));
                    }
                    // writes back under the same attribute number
                    match reencode(a) {
                        Some(b) if b.len() >= 6 && b[4..6] == x.to_be_bytes() => (),
                        other => viol(ctx, "reencode-attr".into(), format!("attribute {x} re-encodes as {:?}", other.map(|b| hex(&b)))),
                    }
                }
                (Err(DecodeError::UnknownAvp(y)), None) if *y == x => (),
                (Err(e), None) => viol(ctx, "unassigned-error".into(), format!("unassigned attribute {x} reported as {e:?}")),
                (Ok(a), None) => viol(ctx, "unassigned-accepted".into(), format!("unassigned attribute {x} accepted as {a:?}")),
                (Err(e), Some(_)) => viol(ctx, "assigned-rejected".into(), format!("attribute {x} with a valid payload rejected: {e:?}")),
            }
            ctx.tally(if kind.is_some() { "attr-assigned" } else { "attr-unassigned" });
        }
        _ => (),
    }
    ctx.note_nontrivial(fnv(field.as_bytes(), x as u64));
    ctx.sample(|| code_json(field, x as u32));
}

/// every named value encodes to its RFC number and decodes back to the same variant
fn check_named(ctx: &mut Ctx) {
    let viol = |ctx: &mut Ctx, sig: String, detail: String| {
        ctx.violation(format!("C16 named {sig}"), detail, 0, || json!({"kind":"named"}));
    };
    let mut seen = std::collections::BTreeSet::new();
    for m in bridge::ALL_MESSAGE_TYPES {
        let want = bridge::message_type_code(&m);
        let mut w = VecWriter::new();
        AVP::MessageType(m).write(&mut w);
        let got = ((w.data[6] as u16) << 8) | w.data[7] as u16;
        if got != want {
            viol(ctx, format!("message-type {m:?}"), format!("{m:?} encodes as {got}, RFC 2661 number is {want}"));
        }
        if !seen.insert(got) {
            viol(ctx, format!("message-type-not-injective {m:?}"), format!("{m:?} shares code {got} with another variant"));
        }
        match dec_avps(&w.data) {
            Some(v) if v.len() == 1 && v[0] == Ok(SAvp::Plain { attr: 0, val: SVal::MessageType(want) }) => (),
            other => viol(ctx, format!("message-type-roundtrip {m:?}"), format!("{m:?} decodes back as {other:?}")),
        }
    }
    for e in bridge::ALL_ERROR_TYPES {
        let want = bridge::error_type_code(&e);
        let got: u16 = e.into();
        if got != want {
            viol(ctx, format!("error-type {e:?}"), format!("{e:?} encodes as {got}, RFC number {want}"));
        }
    }
    for p in bridge::ALL_PROXY_AUTHEN_TYPES {
        let want = bridge::proxy_authen_type_code(&p);
        let got: u16 = p.into();
        if got != want {
            viol(ctx, format!("proxy-type {p:?}"), format!("{p:?} encodes as {got}, RFC number {want}"));
        }
    }
    for c in bridge::ALL_STOP_CCN {
        let want = bridge::stop_ccn_code(&c);
        let got: u16 = CodeValue::from(c).into();
        if got != want {
            viol(ctx, format!("stop-ccn {c:?}"), format!("{c:?} encodes as {got}, RFC number {want}"));
        }
    }
    for c in bridge::ALL_CDN {
        let want = bridge::cdn_code(&c);
        let got: u16 = CodeValue::from(c).into();
        if got != want {
            viol(ctx, format!("cdn {c:?}"), format!("{c:?} encodes as {got}, RFC number {want}"));
        }
    }
    ctx.tally("named-values");
}

const C16_FIELDS: [&str; 6] = ["message-type", "error-type", "proxy-type", "stop-ccn", "cdn", "attribute"];

fn run_c16(ctx: &mut Ctx) {
    if ctx.shard == 0 {
        let desc = || json!({"kind":"named"});
        ctx.states += 1;
        ctx.transitions += 1;
        ctx.case(&desc, check_named);
    }
    for field in C16_FIELDS {
        ctx.states += 1;
        ctx.transitions += 1;
        for x in 0..=0xffffu32 {
            if !ctx.mine() {
                continue;
            }
            ctx.states += 1;
            ctx.transitions += 1;
            let desc = || code_json(field, x);
            ctx.case(&desc, |ctx| check_code(ctx, field, x as u16));
        }
    }
}

fn replay_c16(ctx: &mut Ctx, v: &Value) {
    if v["kind"].as_str() == Some("named") {
        let desc = || json!({"kind":"named"});
        ctx.case(&desc, check_named);
        return;
    }
    let field = v["field"].as_str().unwrap_or("").to_string();
    let x = v["x"].as_u64().unwrap_or(0) as u16;
    let Some(f) = C16_FIELDS.iter().find(|f| **f == field) else {
        eprintln!("machinery: bad C16 replay case");
        std::process::exit(2);
    };
    let desc = || code_json(f, x as u32);
    ctx.case(&desc, |ctx| check_code(ctx, f, x));
}

// ---------------------------------------------------------------------------------------------
// C20

fn fault_json(fault: &str, x: u32, sub: u32, hexs: &str) -> Value {
    json!({"kind":"fault","fault":fault,"x":x,"sub":sub,"hex":hexs})
}

/// Build the faulty input for (fault, x, sub) and the exact error list it must produce.
/// `None`: combination not in the fault's domain.
fn build_fault(fault: &str, x: u32, sub: u32) -> Option<(Vec<u8>, Option<u8>, Vec<DecodeError>, bool)> {
    // returns (bytes, opts, expected errors, bare_list)
    let x16 = x as u16;
    match fault {
        "version" => {
            // x = wrong version nibble, sub = template index x flag variant
            if x == 2 || x > 15 {
                return None;
            }
            let templates: Vec<Vec<u8>> = vec![
                control_message(&[]),
                control_message(&gen::three_avp_body()),
                [&[0x00u8, 0x20][..], &gen::TID.to_be_bytes(), &gen::SID.to_be_bytes(), &[0xaa]].concat(),
                [&[0xc2u8, 0x20][..], &gen::consistent_data_body(0xc220, &[1, 2, 3], 1)].concat(),
            ];
            let t = templates.get((sub % 4) as usize)?;
            let optsel = [Some(spec::OPT_STRICT), Some(spec::OPT_VERSION), None, Some(spec::OPT_VERSION | spec::OPT_UNUSED), Some(spec::OPT_VERSION), None];
            let opts = *optsel.get((sub / 4) as usize)?;
            let mut b = t.clone();
            b[1] = (b[1] & 0x0f) | ((x as u8) << 4);
            if sub / 4 >= 4 {
                // reserved header bits set while only the version is being validated
                b[1] |= 0x0f;
                b[0] |= 0x2c;
            }
            Some((b, opts, vec![DecodeError::InvalidVersion(x as u8)], false))
        }
        "unknown-attr" => {
            if spec::kind_of(x16).is_some() {
                return None;
            }
            let rec = avp_record(0x01, 0, x16, &[1, 2, 3, 4]);
            match sub {
                0 => Some((control_message(&[good_message_type(), rec].concat()), Some(spec::OPT_STRICT), vec![DecodeError::UnknownAvp(x16)], false)),
                1 => Some((rec, None, vec![DecodeError::UnknownAvp(x16)], true)),
                _ => None,
            }
        }
        "message-type" => {
            if spec::message_type_ok(x16) {
                return None;
            }
            let rec = avp_record(0x01, 0, 0, &x16.to_be_bytes());
            match sub {
                0 => Some((control_message(&[good_message_type(), rec].concat()), Some(spec::OPT_STRICT), vec![DecodeError::UnknownMessageType(x16)], false)),
                1 => Some((rec, None, vec![DecodeError::UnknownMessageType(x16)], true)),
                _ => None,
            }
        }
        "vendor" => {
            if x16 == 0 {
                return None;
            }
            // sub = route + 2 * flag pattern (M, none, H+M, H, reserved bits)
            let flagbits = *[0x01u8, 0x00, 0x03, 0x02, 0x3d].get((sub / 2) as usize)?;
            let rec = avp_record(flagbits, x16, 9, &[0x12, 0x34]);
            match sub % 2 {
                0 => Some((control_message(&[good_message_type(), rec].concat()), Some(spec::OPT_STRICT), vec![DecodeError::UnsupportedVendorId(x16)], false)),
                _ => Some((rec, None, vec![DecodeError::UnsupportedVendorId(x16)], true)),
            }
        }
        "offset" => {
            // data message with O bit: sub = octets that remain after the offset size field
            let remain = sub as usize;
            if remain > 40 || (x16 as usize) <= remain {
                return None;
            }
            let mut b = vec![0x40, 0x20];
            b.extend_from_slice(&gen::TID.to_be_bytes());
            b.extend_from_slice(&gen::SID.to_be_bytes());
            b.extend_from_slice(&x16.to_be_bytes());
            b.extend_from_slice(&gen::ramp(remain));
            Some((b, Some(spec::OPT_STRICT), vec![DecodeError::InvalidOffset(x16)], false))
        }
        "error-type" => {
            if x16 <= spec::ERROR_TYPE_MAX {
                return None;
            }
            let payload: Vec<u8> = match sub {
                0 | 1 => [&[0u8, 2][..], &x16.to_be_bytes()].concat(),
                2 | 3 => [&[0u8, 2][..], &x16.to_be_bytes(), b"msg"].concat(),
                _ => return None,
            };
            let rec = avp_record(0x01, 0, 1, &payload);
            if sub % 2 == 0 {
                Some((control_message(&[good_message_type(), rec].concat()), Some(spec::OPT_STRICT), vec![DecodeError::InvalidResultCodeErrorType(x16)], false))
            } else {
                Some((rec, None, vec![DecodeError::InvalidResultCodeErrorType(x16)], true))
            }
        }
        "truncated" => {
            // x = attribute number, sub = payload length below the minimum (x2: in message / bare)
            let (k, _) = spec::kind_of(x16)?;
            let len = (sub / 2) as usize;
            if len >= spec::min_payload(k) {
                return None;
            }
            let rec = avp_record(0x01, 0, x16, &payload_for(x16, len, Content::Valid));
            if sub % 2 == 0 {
                Some((control_message(&[good_message_type(), rec].concat()), Some(spec::OPT_STRICT), vec![DecodeError::IncompleteAVP(x16)], false))
            } else {
                Some((rec, None, vec![DecodeError::IncompleteAVP(x16)], true))
            }
        }
        "utf8" => {
            // x = attribute number of a string-bearing kind; sub = class index * 8 + length variant * 2 + route
            let off = gen::string_offset(x16)?;
            let classes = [Content::Trunc, Content::LoneCont, Content::Overlong, Content::Surrogate, Content::F5];
            let class = *classes.get((sub / 8) as usize)?;
            let strlen = [1usize, 3, 4, 9][((sub % 8) / 2) as usize];
            let payload = payload_for(x16, off + strlen, class);
            if spec::utf8_ok(&payload[off..]) {
                return None;
            }
            let rec = avp_record(0x01, 0, x16, &payload);
            if sub % 2 == 0 {
                Some((control_message(&[good_message_type(), rec].concat()), Some(spec::OPT_STRICT), vec![DecodeError::InvalidUtf8(x16)], false))
            } else {
                Some((rec, None, vec![DecodeError::InvalidUtf8(x16)], true))
            }
        }
        _ => None,
    }
}

fn check_fault(ctx: &mut Ctx, fault: &str, x: u32, sub: u32) {
    let Some((bytes, opts, want, bare)) = build_fault(fault, x, sub) else {
        return;
    };
    let got: Option<Vec<DecodeError>> = if bare {
        dec_avps(&bytes).map(|v| v.into_iter().filter_map(|r| r.err()).collect())
    } else {
        match dec_msg(&bytes, opts) {
            Some(Err(e)) => Some(e),
            Some(Ok(_)) => Some(vec![]),
            None => None,
        }
    };
    let Some(got) = got else {
        ctx.tally("no-result");
        return;
    };
    if got != want {
        let h = hex(&bytes);
        ctx.violation(
            format!("C20 fault {fault} {}", if got.is_empty() { "accepted".to_string() } else { format!("reported-as {}", format!("{:?}", got[0]).split('(').next().unwrap_or("")) }),
            format!("input {h}: expected exactly {want:?}, got {got:?}"),
            bytes.len(),
            || fault_json(fault, x, sub, &h),
        );
    }
    ctx.tally(&format!("fault-{fault}"));
    ctx.note_nontrivial(fnv(&bytes, 20 + bare as u64));
    ctx.sample(|| fault_json(fault, x, sub, &hex(&bytes)));
}

fn tokens(s: &str) -> Vec<&str> {
    s.split(|c: char| !c.is_alphanumeric()).filter(|t| !t.is_empty()).collect()
}

/// Render every error variant for payload value x; AVP-related ones must name the kind that
/// attribute number x decodes to.
fn check_render(ctx: &mut Ctx, x: u16) {
    let kind_name: Option<String> = {
        // what does a valid record with this attribute number decode to?
        let len = spec::kind_of(x).map(|k| spec::min_payload(k.0)).unwrap_or(4) + 3;
        let rec = avp_record(0x01, 0, x, &payload_for(x, len, Content::Valid));
        let (r, _) = run::decode_avps(ReaderKind::Slice, &rec, false);
        match r {
            Ok(_) => {
                // need the crate value (Debug name), not the bridged one
                let mut rd = rl2tp::common::SliceReader::from(&rec[..]);
                let v = guarded(|| AVP::try_read_greedy(&mut rd));
                match v {
                    Ok(mut l) if l.len() == 1 => l.remove(0).ok().map(|a| bridge::variant_name(&a)),
                    _ => None,
                }
            }
            Err(_) => None,
        }
    };
    let expected_token = kind_name.clone().unwrap_or_else(|| x.to_string());
    if kind_name.is_some() {
        ctx.guard("render-named");
    } else {
        ctx.guard("render-numeric");
    }
    let avp_related = [DecodeError::IncompleteAVP(x), DecodeError::InvalidUtf8(x), DecodeError::AVPReadError(x)];
    let mut others = vec![
        DecodeError::UnknownMessageType(x),
        DecodeError::InvalidResultCodeErrorType(x),
        DecodeError::InvalidAVPLength(x),
        DecodeError::UnknownAvp(x),
        DecodeError::InvalidOriginalAVPLength(x),
        DecodeError::UnsupportedVendorId(x),
        DecodeError::InvalidOffset(x),
    ];
    if x < 256 {
        others.push(DecodeError::InvalidVersion(x as u8));
    }
    if x == 0 {
        others.extend([
            DecodeError::EmptyHiddenAVP,
            DecodeError::MisalignedHiddenAVP,
            DecodeError::InvalidReservedBits,
            DecodeError::IncompleteFlags,
            DecodeError::IncompleteDataMessageHeader,
            DecodeError::IncompleteDataMessagePayload,
            DecodeError::EmptyDataMessagePayload,
            DecodeError::MessageReadError,
            DecodeError::ForbiddenControlMessagePriority,
            DecodeError::ForbiddenControlMessageOffset,
            DecodeError::ControlMessageWithoutLength,
            DecodeError::ControlMessageWithoutNsNr,
            DecodeError::IncompleteControlMessageHeader,
            DecodeError::IncompleteControlMessagePayload,
            DecodeError::ControlMessageTypeNotFirst,
        ]);
    }
    for e in avp_related.iter() {
        match guarded(|| e.to_string()) {
            Err(p) => ctx.violation(format!("C20 render panic {}", p.0), format!("{e:?}.to_string() panicked: {}", p.1), x as usize, || json!({"kind":"render","x":x})),
            Ok(s) => {
                if s.is_empty() {
                    ctx.violation("C20 render empty".into(), format!("{e:?} renders as an empty string"), x as usize, || json!({"kind":"render","x":x}));
                } else if !tokens(&s).contains(&expected_token.as_str()) {
                    ctx.violation(
                        format!("C20 render wrong-name attr{}", if kind_name.is_some() { x.to_string() } else { "-unassigned".into() }),
                        format!("{e:?} renders as {s:?}; attribute number {x} decodes to {expected_token}"),
                        x as usize,
                        || json!({"kind":"render","x":x}),
                    );
                }
            }
        }
    }
    for e in others.iter() {
        match guarded(|| e.to_string()) {
            Err(p) => ctx.violation(format!("C20 render panic {}", p.0), format!("{e:?}.to_string() panicked: {}", p.1), x as usize, || json!({"kind":"render","x":x})),
            Ok(s) => {
                if s.is_empty() {
                    ctx.violation("C20 render empty".into(), format!("{e:?} renders as an empty string"), x as usize, || json!({"kind":"render","x":x}));
                }
            }
        }
    }
    ctx.tally("render");
    ctx.note_nontrivial(fnv(b"render", x as u64));
}

fn run_c20(ctx: &mut Ctx) {
    // (fault, x range, sub range)
    let plan: [(&str, u32, u32, &str); 8] = [
        ("version", 16, 24, "fault-version"),
        ("unknown-attr", 65536, 2, "fault-unknown-attr"),
        ("message-type", 65536, 2, "fault-message-type"),
        ("vendor", 65536, 10, "fault-vendor"),
        ("offset", 65536, 4, "fault-offset"),
        ("error-type", 65536, 4, "fault-error-type"),
        ("truncated", 40, 52, "fault-truncated"),
        ("utf8", 40, 40, "fault-utf8"),
    ];
    for (fault, nx, nsub, guard) in plan {
        ctx.states += 1;
        ctx.transitions += 1;
        for x in 0..nx {
            if !ctx.mine() {
                continue;
            }
            ctx.states += 1;
            ctx.transitions += 1;
            for sub in 0..nsub {
                // for the offset fault `sub` selects how many octets remain: 0, 1, 3, 17
                let sub_eff = if fault == "offset" { [0, 1, 3, 17][sub as usize] } else { sub };
                if build_fault(fault, x, sub_eff).is_none() {
                    continue;
                }
                ctx.states += 1;
                ctx.transitions += 1;
                ctx.guard(guard);
                let desc = || fault_json(fault, x, sub_eff, "");
                ctx.case(&desc, |ctx| check_fault(ctx, fault, x, sub_eff));
            }
        }
    }
    let mut rendered: Vec<u32> = Vec::new();
    for x in 0..=0xffffu32 {
        if !ctx.mine() {
            continue;
        }
        rendered.push(x);
        ctx.states += 1;
        ctx.transitions += 1;
        let desc = || json!({"kind":"render","x":x});
        ctx.case(&desc, |ctx| check_render(ctx, x as u16));
    }
    // second pass over the same numbers in descending order: every number is rendered again after
    // thousands of others (a rendering that is only right the first time, or only until enough
    // other numbers have been rendered, shows here; reproduced by replaying the worker's history)
    for x in rendered.into_iter().rev() {
        ctx.states += 1;
        ctx.transitions += 1;
        let desc = || json!({"kind":"render","x":x,"pass":2});
        ctx.case(&desc, |ctx| check_render(ctx, x as u16));
    }
}

fn replay_c20(ctx: &mut Ctx, v: &Value) {
    let x = v["x"].as_u64().unwrap_or(0) as u32;
    match v["kind"].as_str() {
        Some("render") => {
            let desc = || json!({"kind":"render","x":x});
            ctx.case(&desc, |ctx| check_render(ctx, x as u16));
            for e in [DecodeError::IncompleteAVP(x as u16), DecodeError::InvalidUtf8(x as u16), DecodeError::AVPReadError(x as u16)] {
                println!("  {e:?} renders as {:?}", guarded(|| e.to_string()));
            }
        }
        Some("fault") => {
            let fault = v["fault"].as_str().unwrap_or("").to_string();
            let sub = v["sub"].as_u64().unwrap_or(0) as u32;
            let names = ["version", "unknown-attr", "message-type", "vendor", "offset", "error-type", "truncated", "utf8"];
            let Some(f) = names.iter().find(|n| **n == fault) else {
                eprintln!("machinery: bad C20 replay case");
                std::process::exit(2);
            };
            let _ = unhex;
            let desc = || fault_json(f, x, sub, "");
            ctx.case(&desc, |ctx| check_fault(ctx, f, x, sub));
        }
        _ => {
            eprintln!("machinery: bad C20 replay case");
            std::process::exit(2);
        }
    }
}
