//! C17 — bitmask AVPs: accessors return the constructor's arguments; all 32 bits survive.
//! Complete: 4 kinds x 4 boolean pairs, and all 2^32 words per kind.

use super::*;
use crate::ctx::{fnv, Ctx};
use crate::monitor::Mon;
use rl2tp::avp::types::{BearerCapabilities, BearerType, FramingCapabilities, FramingType};
use rl2tp::avp::AVP;
use rl2tp::common::{SliceReader, VecWriter};
use serde_json::{json, Value};
use std::cell::RefCell;

pub fn defs() -> Vec<PropDef> {
    vec![PropDef {
        id: "C17",
        profiles: BOTH,
        shards: sixteen,
        run: run_c17,
        replay: replay_c17,
        post: |_, g, _| {
            for k in ["constructor-pairs", "words-kind-3", "words-kind-4", "words-kind-18", "words-kind-19"] {
                if !g.contains_key(k) {
                    return Err(format!("C17 guard {k} never hit"));
                }
            }
            Ok(())
        },
        rule: "Complete enumeration: 4 kinds x 4 boolean pairs through the public constructors (the accessor named after constructor parameter i must return argument i), and every 32-bit word for each kind through the type's try_read -> accessors -> AVP::write (re-encoded word = input word, accessor = bit 6 / bit 7 of the word); thorough additionally sends every word through try_read_greedy inside an AVP record. Non-trivial: every case (each word of each kind is a distinct case); counted per 65 536-word block.",
        bounds: |t| json!({"kinds": 4, "boolean_pairs": 4, "words_per_kind": if t.thorough() { "2^32 in both profiles, via try_read and via try_read_greedy" } else { "2^32 in the release profile; in the debug-assertions profile the 2^24 words with a zero top octet plus one word per higher 2^16 block" }}),
        assumptions: COMMON_ASSUMPTIONS,
        fd_monitor: false,
        mem_gb: mem4,
        watchdog_s: |_| 30,
        deadline_s: no_deadline,
    }]
}

const KINDS: [u16; 4] = [3, 4, 18, 19];

/// (accessor of the flag on bit 6, accessor of the flag on bit 7, re-encoded octets)
fn observe(kind: u16, word: u32, w: &mut VecWriter, through_list: bool) -> Option<(bool, bool, u32)> {
    let b = word.to_be_bytes();
    w.data.clear();
    if through_list {
        let mut rec = [0u8; 10];
        rec[0] = 0x80 >> 7; // M bit only; length high bits zero
        rec[0] = 0x01;
        rec[1] = 10;
        rec[5] = kind as u8;
        rec[6..10].copy_from_slice(&b);
        let mut r = SliceReader::from(&rec[..]);
        let mut l = AVP::try_read_greedy(&mut r);
        if l.len() != 1 {
            return None;
        }
        let a = l.remove(0).ok()?;
        let acc = match &a {
            AVP::FramingCapabilities(x) if kind == 3 => (x.is_async_framing_supported(), x.is_sync_framing_supported()),
            AVP::BearerCapabilities(x) if kind == 4 => (x.is_analog_access_supported(), x.is_digital_access_supported()),
            AVP::BearerType(x) if kind == 18 => (x.is_analog_request(), x.is_digital_request()),
            AVP::FramingType(x) if kind == 19 => (x.is_analog_request(), x.is_digital_request()),
            _ => return None,
        };
        a.write(w);
        let d = &w.data;
        return Some((acc.0, acc.1, u32::from_be_bytes([d[6], d[7], d[8], d[9]])));
    }
    let mut r = SliceReader::from(&b[..]);
    let (acc, a) = match kind {
        3 => {
            let x = FramingCapabilities::try_read(&mut r).ok()?;
            ((x.is_async_framing_supported(), x.is_sync_framing_supported()), AVP::FramingCapabilities(x))
        }
        4 => {
            let x = BearerCapabilities::try_read(&mut r).ok()?;
            ((x.is_analog_access_supported(), x.is_digital_access_supported()), AVP::BearerCapabilities(x))
        }
        18 => {
            let x = BearerType::try_read(&mut r).ok()?;
            ((x.is_analog_request(), x.is_digital_request()), AVP::BearerType(x))
        }
        _ => {
            let x = FramingType::try_read(&mut r).ok()?;
            ((x.is_analog_request(), x.is_digital_request()), AVP::FramingType(x))
        }
    };
    a.write(w);
    let d = &w.data;
    if d.len() != 10 {
        return None;
    }
    Some((acc.0, acc.1, u32::from_be_bytes([d[6], d[7], d[8], d[9]])))
}

fn check_word(ctx: &mut Ctx, kind: u16, word: u32, w: &mut VecWriter, through_list: bool) {
    let want6 = (word >> 6) & 1 != 0;
    let want7 = (word >> 7) & 1 != 0;
    let viol = |ctx: &mut Ctx, sig: String, detail: String| {
        ctx.violation(format!("C17 kind{kind} {sig}"), detail, word.count_ones() as usize, || json!({"kind":"word","attr":kind,"word":word,"through_list":through_list}));
    };
    match observe(kind, word, w, through_list) {
        None => viol(ctx, "word-rejected".into(), format!("word {word:#010x} did not decode to a bitmask AVP of kind {kind}")),
        Some((a6, a7, back)) => {
            if back != word {
                viol(ctx, "bits-lost".into(), format!("word {word:#010x} re-encodes as {back:#010x}"));
            }
            if a6 != want6 {
                viol(ctx, "bit6-accessor".into(), format!("word {word:#010x}: accessor of the bit-6 flag returns {a6}"));
            }
            if a7 != want7 {
                viol(ctx, "bit7-accessor".into(), format!("word {word:#010x}: accessor of the bit-7 flag returns {a7}"));
            }
        }
    }
}

fn check_constructors(ctx: &mut Ctx) {
    let mut w = VecWriter::new();
    for x in [false, true] {
        for y in [false, true] {
            let viol = |ctx: &mut Ctx, kind: &str, detail: String| {
                ctx.violation(format!("C17 constructor {kind}"), detail, x as usize + y as usize, || json!({"kind":"constructor","x":x,"y":y}));
            };
            let fc = FramingCapabilities::new(x, y);
            if fc.is_async_framing_supported() != x || fc.is_sync_framing_supported() != y {
                viol(ctx, "FramingCapabilities", format!("new(async={x}, sync={y}) reports async={}, sync={}", fc.is_async_framing_supported(), fc.is_sync_framing_supported()));
            }
            let bc = BearerCapabilities::new(x, y);
            if bc.is_digital_access_supported() != x || bc.is_analog_access_supported() != y {
                viol(ctx, "BearerCapabilities", format!("new(digital={x}, analog={y}) reports digital={}, analog={}", bc.is_digital_access_supported(), bc.is_analog_access_supported()));
            }
            let bt = BearerType::new(x, y);
            if bt.is_analog_request() != x || bt.is_digital_request() != y {
                viol(ctx, "BearerType", format!("new(analog={x}, digital={y}) reports analog={}, digital={}", bt.is_analog_request(), bt.is_digital_request()));
            }
            let ft = FramingType::new(x, y);
            if ft.is_analog_request() != x || ft.is_digital_request() != y {
                viol(ctx, "FramingType", format!("new(analog={x}, digital={y}) reports analog={}, digital={}", ft.is_analog_request(), ft.is_digital_request()));
            }
            // a constructed value survives the wire and keeps only its two bits
            for (a, kind) in [
                (AVP::FramingCapabilities(fc), 3u16),
                (AVP::BearerCapabilities(bc), 4),
                (AVP::BearerType(bt), 18),
                (AVP::FramingType(ft), 19),
            ] {
                w.data.clear();
                a.write(&mut w);
                let word = u32::from_be_bytes([w.data[6], w.data[7], w.data[8], w.data[9]]);
                if word & !0xc0 != 0 || word.count_ones() != x as u32 + y as u32 {
                    viol(ctx, "stray-bits", format!("kind {kind}: new({x},{y}) encodes word {word:#010x}"));
                }
                let mut r = SliceReader::from(&w.data[..]);
                let l = AVP::try_read_greedy(&mut r);
                if l.len() != 1 || l[0].as_ref().ok() != Some(&a) {
                    viol(ctx, "constructed-roundtrip", format!("kind {kind}: new({x},{y}) decodes back as {l:?}"));
                }
            }
        }
    }
    ctx.guard("constructor-pairs");
    ctx.tally("constructors");
    let _ = (Mon::new(false), RefCell::new(0));
}

fn run_c17(ctx: &mut Ctx) {
    let tier = ctx.tier;
    let chk = cfg!(debug_assertions);
    if ctx.shard == 0 {
        let desc = || json!({"kind":"constructors"});
        ctx.states += 1;
        ctx.transitions += 1;
        ctx.case(&desc, check_constructors);
    }
    let mut w = VecWriter::new();
    let routes: &[bool] = if tier.thorough() { &[false, true] } else { &[false] };
    for &through_list in routes {
        for kind in KINDS {
            for block in 0..(1u32 << 16) {
                if !ctx.mine() {
                    continue;
                }
                ctx.states += 1;
                ctx.transitions += 1;
                let base = block << 16;
                // quick tier, debug-assertions profile: complete below 2^24, one word per block above
                let sparse = chk && !tier.thorough() && block >= 256;
                let desc = || json!({"kind":"block","attr":kind,"base":base,"through_list":through_list,"sparse":sparse});
                ctx.case(&desc, |ctx| {
                    if sparse {
                        check_word(ctx, kind, base | (block & 0xffff), &mut w, through_list);
                        ctx.states += 1;
                        ctx.transitions += 1;
                    } else {
                        for lo in 0..(1u32 << 16) {
                            check_word(ctx, kind, base | lo, &mut w, through_list);
                        }
                        ctx.states += 1 << 16;
                        ctx.transitions += 1 << 16;
                        // executions are counted per word
                        ctx.executions += (1 << 16) - 1;
                    }
                });
                ctx.note_nontrivial(fnv(&base.to_be_bytes(), kind as u64 * 2 + through_list as u64));
                if block == 0 {
                    ctx.guard(match kind {
                        3 => "words-kind-3",
                        4 => "words-kind-4",
                        18 => "words-kind-18",
                        _ => "words-kind-19",
                    });
                }
            }
        }
    }
    ctx.tally("word-blocks");
    ctx.sample(|| json!({"kind":"word","attr":3,"word":0x010203c4u32}));
}

fn replay_c17(ctx: &mut Ctx, v: &Value) {
    let mut w = VecWriter::new();
    match v["kind"].as_str() {
        Some("word") => {
            let kind = v["attr"].as_u64().unwrap_or(3) as u16;
            let word = v["word"].as_u64().unwrap_or(0) as u32;
            let tl = v["through_list"].as_bool().unwrap_or(false);
            let desc = || json!({"kind":"word","attr":kind,"word":word,"through_list":tl});
            ctx.case(&desc, |ctx| check_word(ctx, kind, word, &mut w, tl));
            println!("  observed (bit6 accessor, bit7 accessor, re-encoded word): {:?}", observe(kind, word, &mut w, tl));
        }
        Some("block") => {
            let kind = v["attr"].as_u64().unwrap_or(3) as u16;
            let base = v["base"].as_u64().unwrap_or(0) as u32;
            let tl = v["through_list"].as_bool().unwrap_or(false);
            let desc = || json!({"kind":"block","attr":kind,"base":base,"through_list":tl});
            ctx.case(&desc, |ctx| {
                for lo in 0..(1u32 << 16) {
                    check_word(ctx, kind, base | lo, &mut w, tl);
                }
            });
        }
        _ => {
            let desc = || json!({"kind":"constructors"});
            ctx.case(&desc, check_constructors);
        }
    }
}
