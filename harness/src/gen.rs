//! Generators for the explored spaces (DESIGN.md §4): wire space W0–W6 and helpers for the
//! value space. Every generator is deterministic; nothing is random.

use crate::ctx::{Ctx, Tier};
use crate::explore::{explore, Chooser};
use crate::spec::{self, Kind};

pub const TID: u16 = 0x0102;
pub const SID: u16 = 0x0304;
pub const NS: u16 = 0x0506;
pub const NR: u16 = 0x0708;

pub fn ramp(n: usize) -> Vec<u8> {
    (0..n).map(|i| ((7 * i + 3) % 256) as u8).collect()
}

#[derive(Clone, Copy, Debug, PartialEq, Eq)]
pub enum Entry {
    /// `Message::try_read_validate` under option sets, and `Message::try_read`
    Message,
    /// `AVP::try_read_greedy` on the raw octets
    AvpList,
    /// `types::X::try_read` on the raw octets as payload of attribute X
    Type(u16),
}

pub struct WireCase<'a> {
    pub family: &'static str,
    pub entry: Entry,
    pub bytes: &'a [u8],
    /// the varied part lies below the message header, so the option sets do not interact with it
    pub body_level: bool,
}

pub type Sink<'s> = &'s mut dyn FnMut(&mut Ctx, &WireCase);

// ---------------------------------------------------------------------------------------------
// payload contents

#[derive(Clone, Copy, Debug, PartialEq, Eq)]
pub enum Content {
    Valid,
    Ramp,
    Zero,
    Ff,
    U2,
    U3,
    U4,
    Trunc,
    LoneCont,
    Overlong,
    Surrogate,
    F5,
    /// valid: a byte-order mark at the head
    BomHead,
    /// valid: a four-octet scalar at the head, a three-octet non-character at the tail
    U4Head,
}

pub const BASIC_CONTENT: [Content; 4] = [Content::Valid, Content::Ramp, Content::Zero, Content::Ff];
pub const STRING_CONTENT: [Content; 14] = [
    Content::Valid,
    Content::Ramp,
    Content::Zero,
    Content::Ff,
    Content::U2,
    Content::U3,
    Content::U4,
    Content::Trunc,
    Content::LoneCont,
    Content::Overlong,
    Content::Surrogate,
    Content::F5,
    Content::BomHead,
    Content::U4Head,
];

/// offset of the string part inside the payload of string-bearing kinds
pub fn string_offset(attr: u16) -> Option<usize> {
    match spec::kind_of(attr)?.0 {
        Kind::Str => Some(0),
        Kind::ResultCode => Some(4),
        Kind::Q931 => Some(3),
        _ => None,
    }
}

fn fill_string(s: &mut [u8], class: Content) {
    for (i, b) in s.iter_mut().enumerate() {
        *b = b'a' + (i % 26) as u8;
    }
    let n = s.len();
    let put_tail = |s: &mut [u8], pat: &[u8]| {
        let n = s.len();
        if n >= pat.len() {
            s[n - pat.len()..].copy_from_slice(pat);
        } else {
            s.copy_from_slice(&pat[..n]);
        }
    };
    match class {
        Content::U2 => put_tail(s, &[0xc3, 0xa9]),
        Content::U3 => put_tail(s, &[0xe2, 0x82, 0xac]),
        Content::U4 => put_tail(s, &[0xf0, 0x9f, 0x98, 0x80]),
        Content::Trunc => put_tail(s, &[0xe2, 0x82]),
        Content::LoneCont => {
            if n > 0 {
                s[n / 2] = 0x80;
            }
        }
        Content::Overlong => put_tail(s, &[0xc0, 0x80]),
        Content::Surrogate => put_tail(s, &[0xed, 0xa0, 0x80]),
        Content::F5 => put_tail(s, &[0xf5, 0x80, 0x80, 0x80]),
        Content::BomHead => {
            if n >= 3 {
                s[..3].copy_from_slice(&[0xef, 0xbb, 0xbf]);
            }
        }
        Content::U4Head => {
            if n >= 7 {
                s[..4].copy_from_slice(&[0xf4, 0x8f, 0xbf, 0xbf]);
                s[n - 3..].copy_from_slice(&[0xef, 0xbf, 0xbf]);
            }
        }
        _ => (),
    }
}

/// `len` payload octets for attribute `attr` in content class `class`. `Valid` is decodable
/// whenever `len` reaches the kind's minimum; every data field carries distinct octets.
pub fn payload_for(attr: u16, len: usize, class: Content) -> Vec<u8> {
    let mut p = match class {
        Content::Zero => vec![0u8; len],
        Content::Ff => vec![0xffu8; len],
        _ => ramp(len),
    };
    if matches!(class, Content::Ramp | Content::Zero | Content::Ff) {
        return p;
    }
    let put = |p: &mut Vec<u8>, at: usize, v: &[u8]| {
        for (i, b) in v.iter().enumerate() {
            if at + i < p.len() {
                p[at + i] = *b;
            }
        }
    };
    match spec::kind_of(attr).map(|k| k.0) {
        Some(Kind::MessageType) => put(&mut p, 0, &[0, 1]),
        Some(Kind::ResultCode) => put(&mut p, 2, &[0, 2]),
        Some(Kind::PAType) => put(&mut p, 0, &[0, 2]),
        _ => (),
    }
    if let Some(off) = string_offset(attr) {
        if len > off {
            fill_string(&mut p[off..], class);
        }
    }
    p
}

pub fn avp_header(flagbits: u8, declared: u16, vendor: u16, attr: u16) -> [u8; 6] {
    [
        (((declared >> 8) as u8 & 0x3) << 6) | (flagbits & 0x3f),
        declared as u8,
        (vendor >> 8) as u8,
        vendor as u8,
        (attr >> 8) as u8,
        attr as u8,
    ]
}

pub fn avp_record(flagbits: u8, vendor: u16, attr: u16, payload: &[u8]) -> Vec<u8> {
    let mut v = avp_header(flagbits, (6 + payload.len()) as u16, vendor, attr).to_vec();
    v.extend_from_slice(payload);
    v
}

pub fn control_header(flags: u16, length: u16, tid: u16, sid: u16, ns: u16, nr: u16) -> Vec<u8> {
    let mut v = Vec::with_capacity(12);
    for x in [flags, length, tid, sid, ns, nr] {
        v.extend_from_slice(&x.to_be_bytes());
    }
    v
}

/// canonical control message around an AVP body
pub fn control_message(body: &[u8]) -> Vec<u8> {
    let mut v = control_header(spec::F_CANON_CONTROL, (12 + body.len()) as u16, TID, SID, NS, NR);
    v.extend_from_slice(body);
    v
}

pub fn good_message_type() -> Vec<u8> {
    avp_record(0x01, 0, 0, &[0, 1])
}

// ---------------------------------------------------------------------------------------------
// record menu R for sequence exploration

#[derive(Clone, Copy, Debug, PartialEq, Eq)]
pub enum RecClass {
    Good,
    Bad,
    /// length field unusable: parsing stops here
    Unusable,
    /// 1–5 octets that cannot hold a header
    Stray,
}

pub struct Rec {
    pub name: &'static str,
    pub class: RecClass,
    pub bytes: Vec<u8>,
}

pub fn record_menu() -> Vec<Rec> {
    let r = |name, class, bytes| Rec { name, class, bytes };
    vec![
        r("message_type", RecClass::Good, good_message_type()),
        r("u16", RecClass::Good, avp_record(0x01, 0, 9, &[0x12, 0x34])),
        r("u16_surplus", RecClass::Good, avp_record(0x01, 0, 6, &[0x21, 0x43, 0xaa, 0xbb, 0xcc])),
        r("bytes_greedy", RecClass::Good, avp_record(0x01, 0, 7, &[0x68, 0x6f, 0x73, 0x74, 0x00])),
        r("utf8", RecClass::Good, avp_record(0x01, 0, 8, &[0x76, 0xc3, 0xa9, 0x6e])),
        r("empty_kind", RecClass::Good, avp_record(0x01, 0, 39, &[])),
        r("hidden", RecClass::Good, avp_record(0x03, 0, 7, &ramp(16))),
        r("hidden_empty", RecClass::Good, avp_record(0x03, 0, 11, &[])),
        r("m_clear", RecClass::Good, avp_record(0x00, 0, 10, &[0x00, 0x08])),
        r("reserved_bits", RecClass::Good, avp_record(0x3d, 0, 14, &[0x55, 0x66])),
        r("vendor", RecClass::Bad, avp_record(0x01, 9, 1, &[0, 1, 0, 2])),
        r("unknown_attr", RecClass::Bad, avp_record(0x01, 0, 20, &[1, 2])),
        r("truncated", RecClass::Bad, avp_record(0x01, 0, 5, &[1, 2, 3, 4])),
        r("bad_utf8", RecClass::Bad, avp_record(0x01, 0, 21, &[0x31, 0xc0, 0x80])),
        r("bad_message_type", RecClass::Bad, avp_record(0x01, 0, 0, &[0, 5])),
        r("bad_error_type", RecClass::Bad, avp_record(0x01, 0, 1, &[0, 2, 0, 9])),
        r("bad_proxy_type", RecClass::Bad, avp_record(0x01, 0, 29, &[0, 6])),
        r("length_below_6", RecClass::Unusable, avp_header(0x01, 3, 0, 9).to_vec()),
        r("length_beyond", RecClass::Unusable, {
            let mut v = avp_header(0x01, 1023, 0, 9).to_vec();
            v.extend_from_slice(&[0x12, 0x34]);
            v
        }),
        r("unknown_attr_m_clear", RecClass::Bad, avp_record(0x00, 0, 40, &[1, 2])),
        r("truncated_m_clear", RecClass::Bad, avp_record(0x00, 0, 15, &[1, 2])),
        r("vendor_hidden_flag", RecClass::Bad, avp_record(0x03, 0x1234, 7, &ramp(16))),
        r("stray", RecClass::Stray, vec![0x00, 0x08, 0x00]),
        // appended later (indices above are referred to by stored cases): records whose decoding
        // differs as soon as a payload decoder is allowed to look beyond the declared extent, or
        // is stopped short of it
        r("empty_fixed", RecClass::Bad, avp_record(0x01, 0, 2, &[])),
        r("empty_variable", RecClass::Bad, avp_record(0x01, 0, 37, &[])),
        r("u16_surplus_is_avp", RecClass::Good, {
            let mut p = vec![0x12, 0x34];
            p.extend_from_slice(&avp_record(0x01, 0, 39, &[]));
            avp_record(0x01, 0, 9, &p)
        }),
    ]
}

// ---------------------------------------------------------------------------------------------
// W0: raw short strings

pub fn w0(ctx: &mut Ctx, tier: Tier, sink: Sink) {
    let max = if tier.thorough() { 3 } else { 2 };
    let mut buf = [0u8; 3];
    for n in 0..=max {
        let total: u64 = 256u64.pow(n as u32);
        // unit = 256 consecutive strings
        let mut idx = 0u64;
        while idx < total {
            let hi = (idx + 256).min(total);
            if ctx.mine() {
                ctx.states += 1;
                ctx.transitions += 1;
                for x in idx..hi {
                    for k in 0..n {
                        buf[k] = (x >> (8 * (n - 1 - k))) as u8;
                    }
                    for entry in [Entry::Message, Entry::AvpList] {
                        ctx.states += 1;
                        ctx.transitions += 1;
                        sink(
                            ctx,
                            &WireCase {
                                family: "W0",
                                entry,
                                bytes: &buf[..n],
                                body_level: false,
                            },
                        );
                    }
                }
            }
            idx = hi;
        }
    }
}

// ---------------------------------------------------------------------------------------------
// W1: every flag word over body templates

pub fn three_avp_body() -> Vec<u8> {
    let mut b = good_message_type();
    b.extend_from_slice(&avp_record(0x01, 0, 7, b"lac"));
    b.extend_from_slice(&avp_record(0x01, 0, 3, &[0, 0, 0, 0xc0]));
    b
}

/// data-message body (after the flag word) consistent with the L/S/O bits of `flags`
pub fn consistent_data_body(flags: u16, payload: &[u8], pad: usize) -> Vec<u8> {
    let mut v = Vec::new();
    let has_l = flags & spec::F_L != 0;
    if has_l {
        v.extend_from_slice(&[0, 0]);
    }
    v.extend_from_slice(&TID.to_be_bytes());
    v.extend_from_slice(&SID.to_be_bytes());
    if flags & spec::F_S != 0 {
        v.extend_from_slice(&NS.to_be_bytes());
        v.extend_from_slice(&NR.to_be_bytes());
    }
    if flags & spec::F_O != 0 {
        v.extend_from_slice(&(pad as u16).to_be_bytes());
        for i in 0..pad {
            v.push(0xe0 + i as u8);
        }
    }
    v.extend_from_slice(payload);
    if has_l {
        let total = (2 + v.len()) as u16;
        v[0] = (total >> 8) as u8;
        v[1] = total as u8;
    }
    v
}

pub fn w1_templates(flags: u16) -> Vec<Vec<u8>> {
    let mut t: Vec<Vec<u8>> = Vec::new();
    let ctl = |body: &[u8]| control_message(body)[2..].to_vec();
    t.push(ctl(&[]));
    t.push(ctl(&good_message_type()));
    t.push(ctl(&three_avp_body()));
    t.push(consistent_data_body(flags, &[0xa1, 0xa2, 0xa3], 1));
    t.push({
        let mut v = Vec::new();
        v.extend_from_slice(&TID.to_be_bytes());
        v.extend_from_slice(&SID.to_be_bytes());
        v.push(0xaa);
        v
    });
    let n = t.len();
    for i in 0..n {
        let mut c = t[i].clone();
        c.pop();
        t.push(c);
    }
    t
}

pub fn w1(ctx: &mut Ctx, _tier: Tier, sink: Sink) {
    let mut buf = Vec::new();
    for flags in 0..=0xffffu32 {
        if !ctx.mine() {
            continue;
        }
        ctx.states += 1;
        ctx.transitions += 1;
        let flags = flags as u16;
        for t in w1_templates(flags) {
            buf.clear();
            buf.extend_from_slice(&flags.to_be_bytes());
            buf.extend_from_slice(&t);
            ctx.states += 1;
            ctx.transitions += 1;
            sink(
                ctx,
                &WireCase {
                    family: "W1",
                    entry: Entry::Message,
                    bytes: &buf,
                    body_level: false,
                },
            );
        }
    }
}

// ---------------------------------------------------------------------------------------------
// W2: control header space

/// Fα: canonical word, each single-bit flip of it, every subset of {L,S,O,P} on a control
/// word, all-ones, zero.
pub fn flag_alphabet() -> Vec<u16> {
    let canon = spec::F_CANON_CONTROL;
    let mut v = vec![canon];
    for bit in 0..16 {
        v.push(canon ^ (1 << bit));
    }
    for sub in 0..16u16 {
        let mut f = spec::F_T | (2 << 4);
        if sub & 1 != 0 {
            f |= spec::F_L;
        }
        if sub & 2 != 0 {
            f |= spec::F_S;
        }
        if sub & 4 != 0 {
            f |= spec::F_O;
        }
        if sub & 8 != 0 {
            f |= spec::F_P;
        }
        if !v.contains(&f) {
            v.push(f);
        }
    }
    v.push(0xffff);
    v.push(0x0000);
    v
}

pub fn w2(ctx: &mut Ctx, tier: Tier, sink: Sink) {
    let fa = flag_alphabet();
    let bodies: Vec<Vec<u8>> = vec![
        vec![],
        good_message_type(),
        {
            let mut b = good_message_type();
            b.extend_from_slice(&avp_record(0x01, 0, 9, &[0x12, 0x34]));
            b
        },
        three_avp_body(),
    ];
    let ids: [u16; 3] = [0, 0, 0xffff]; // index 0 = sentinel (filled in below)
    let suffixes: [&[u8]; 3] = [&[], &[0xee], &[0x00, 0x08, 0x00]];
    let dev = if tier.thorough() { Some(2) } else { Some(1) };
    let mut buf: Vec<u8> = Vec::new();
    let st = explore(dev, |c: &mut Chooser| {
        let flags = *c.of(&fa);
        let body = c.of(&bodies);
        if !ctx.mine_key(c.prefix_key()) {
            return true;
        }
        let truelen = 12 + body.len();
        let suffix = *c.of(&suffixes);
        let avail = truelen + suffix.len();
        let length_choice = c.pick(12);
        let length: u16 = match length_choice {
            0 => truelen as u16,
            1 => 0,
            2 => 1,
            3 => 11,
            4 => 12,
            5 => 13,
            6 => (truelen - 1) as u16,
            7 => (truelen + 1) as u16,
            8 => truelen.saturating_sub(6) as u16,
            9 => avail as u16,
            10 => (avail + 1) as u16,
            _ => 0xffff,
        };
        let mut idv = [TID, SID, NS, NR];
        for v in idv.iter_mut() {
            let k = c.pick_soft(3) as usize;
            if k != 0 {
                *v = ids[k];
            }
        }
        buf.clear();
        buf.extend_from_slice(&control_header(flags, length, idv[0], idv[1], idv[2], idv[3]));
        buf.extend_from_slice(body);
        buf.extend_from_slice(suffix);
        // every truncation point (0 = whole)
        let cut = c.pick(buf.len() as u32 + 1) as usize;
        let n = buf.len() - cut;
        sink(
            ctx,
            &WireCase {
                family: "W2",
                entry: Entry::Message,
                bytes: &buf[..n],
                body_level: false,
            },
        );
        !ctx.out_of_time()
    });
    ctx.states += st.states;
    ctx.transitions += st.transitions;
}

// ---------------------------------------------------------------------------------------------
// W3: one AVP record, bare and inside a control message after a Message Type AVP

pub fn attr_alphabet() -> Vec<u16> {
    let mut v: Vec<u16> = (0..=41).collect();
    v.extend_from_slice(&[255, 256, 0xffff]);
    v
}

pub fn payload_lengths(attr: u16, tier: Tier) -> Vec<usize> {
    let min = spec::kind_of(attr).map(|k| spec::min_payload(k.0)).unwrap_or(0);
    let mut v: Vec<usize> = (0..=min + 2).collect();
    let extra: &[usize] = if tier.thorough() {
        &[5, 6, 7, 8, 9, 15, 16, 17, 18, 27, 34, 249, 250, 251, 505, 506, 1016, 1017]
    } else {
        &[5, 16, 17, 34, 250, 1017]
    };
    for e in extra {
        if !v.contains(e) {
            v.push(*e);
        }
    }
    v
}

pub fn w3(ctx: &mut Ctx, tier: Tier, sink: Sink) {
    let attrs = attr_alphabet();
    let flagpats: [u8; 8] = [0x01, 0x00, 0x02, 0x03, 0x04, 0x20, 0x3c, 0x3f];
    let vendors: [u16; 3] = [0, 1, 0xffff];
    let dev = if tier.thorough() { None } else { Some(3) };
    let mut buf: Vec<u8> = Vec::new();
    let mut msg: Vec<u8> = Vec::new();
    let st = explore(dev, |c: &mut Chooser| {
        let attr = *c.of(&attrs);
        let plens = payload_lengths(attr, tier);
        let plen = *c.of(&plens);
        if !ctx.mine_key(c.prefix_key()) {
            return true;
        }
        let contents: &[Content] = if string_offset(attr).is_some() {
            &STRING_CONTENT
        } else {
            &BASIC_CONTENT
        };
        let content = *c.of(contents);
        let flagbits = *c.of_soft(&flagpats);
        let vendor = *c.of_soft(&vendors);
        // declared length relative to the payload really present
        let real = 6 + plen;
        let declared: u16 = match c.pick_soft(11) {
            0 => real as u16,
            1 => (real as u16).wrapping_sub(1) & 0x3ff,
            2 => (real as u16 + 1) & 0x3ff,
            3 => 0,
            4 => 3,
            5 => 5,
            6 => 6,
            7 => 7,
            8 => 1023,
            9 => (real as u16 + 6) & 0x3ff,
            _ => (real as u16).wrapping_sub(2) & 0x3ff,
        };
        let trailing: &[u8] = match c.pick_soft(4) {
            0 => &[],
            1 => &[0x5a],
            2 => &[0x00, 0x08, 0x00, 0x00, 0x00],
            _ => &[0x00, 0x08, 0x00, 0x00, 0x00, 0x09, 0x12, 0x34],
        };
        let payload = payload_for(attr, plen, content);
        buf.clear();
        buf.extend_from_slice(&avp_header(flagbits, declared, vendor, attr));
        buf.extend_from_slice(&payload);
        buf.extend_from_slice(trailing);
        sink(
            ctx,
            &WireCase {
                family: "W3",
                entry: Entry::AvpList,
                bytes: &buf,
                body_level: true,
            },
        );
        if buf.len() + 8 + 12 <= 65535 {
            msg.clear();
            msg.extend_from_slice(&control_header(spec::F_CANON_CONTROL, (12 + 8 + buf.len()) as u16, TID, SID, NS, NR));
            msg.extend_from_slice(&good_message_type());
            msg.extend_from_slice(&buf);
            sink(
                ctx,
                &WireCase {
                    family: "W3m",
                    entry: Entry::Message,
                    bytes: &msg,
                    body_level: true,
                },
            );
        }
        if flagbits == 0x01 && vendor == 0 && declared as usize == real && trailing.is_empty() {
            // the payload decoder driven directly: no sub-reader to hide behind
            sink(
                ctx,
                &WireCase {
                    family: "W3t",
                    entry: Entry::Type(attr),
                    bytes: &payload,
                    body_level: true,
                },
            );
        }
        !ctx.out_of_time()
    });
    ctx.states += st.states;
    ctx.transitions += st.transitions;
}

/// All 65 536 first-two-octet words of an AVP header over a few record templates (thorough).
pub fn w3_first_words(ctx: &mut Ctx, _tier: Tier, sink: Sink) {
    let templates: Vec<(u16, Vec<u8>)> = vec![
        (9, vec![0x12, 0x34]),
        (7, ramp(20)),
        (8, b"vendor".to_vec()),
        (39, vec![]),
    ];
    let mut buf = Vec::new();
    for w in 0..=0xffffu32 {
        if !ctx.mine() {
            continue;
        }
        ctx.states += 1;
        ctx.transitions += 1;
        for (attr, p) in &templates {
            buf.clear();
            buf.extend_from_slice(&(w as u16).to_be_bytes());
            buf.extend_from_slice(&[0, 0]);
            buf.extend_from_slice(&attr.to_be_bytes());
            buf.extend_from_slice(p);
            buf.extend_from_slice(&[0x00, 0x08, 0x00]);
            ctx.states += 1;
            ctx.transitions += 1;
            sink(
                ctx,
                &WireCase {
                    family: "W3w",
                    entry: Entry::AvpList,
                    bytes: &buf,
                    body_level: true,
                },
            );
        }
    }
}

// ---------------------------------------------------------------------------------------------
// W4: record sequences

pub fn w4(ctx: &mut Ctx, tier: Tier, sink: Sink) {
    let menu = record_menu();
    let maxlen = if tier.thorough() { 5 } else { 4 };
    let n = menu.len() as u32;
    let mut buf: Vec<u8> = Vec::new();
    let mut msg: Vec<u8> = Vec::new();
    let st = explore(None, |c: &mut Chooser| {
        let k = c.pick(maxlen + 1);
        buf.clear();
        let mut first = 0;
        for i in 0..k {
            let r = c.pick(n) as usize;
            if i == 0 {
                first = r;
            }
            buf.extend_from_slice(&menu[r].bytes);
            if i == 1 && !ctx.mine_key(c.prefix_key()) {
                return true;
            }
        }
        if k < 2 && ctx.shard != 0 {
            return true;
        }
        sink(
            ctx,
            &WireCase {
                family: "W4",
                entry: Entry::AvpList,
                bytes: &buf,
                body_level: true,
            },
        );
        // in a control message, as is (first record whatever it is)
        msg.clear();
        msg.extend_from_slice(&control_header(spec::F_CANON_CONTROL, (12 + buf.len()) as u16, TID, SID, NS, NR));
        msg.extend_from_slice(&buf);
        sink(
            ctx,
            &WireCase {
                family: "W4m",
                entry: Entry::Message,
                bytes: &msg,
                body_level: true,
            },
        );
        // and after a good Message Type (skip when the sequence already starts with one)
        if first != 0 || k == 0 {
            msg.clear();
            msg.extend_from_slice(&control_header(spec::F_CANON_CONTROL, (12 + 8 + buf.len()) as u16, TID, SID, NS, NR));
            msg.extend_from_slice(&good_message_type());
            msg.extend_from_slice(&buf);
            sink(
                ctx,
                &WireCase {
                    family: "W4mt",
                    entry: Entry::Message,
                    bytes: &msg,
                    body_level: true,
                },
            );
        }
        !ctx.out_of_time()
    });
    ctx.states += st.states;
    ctx.transitions += st.transitions;
}

// ---------------------------------------------------------------------------------------------
// W5: data messages

pub fn w5(ctx: &mut Ctx, tier: Tier, sink: Sink) {
    let variants: [u16; 6] = [2 << 4, 0 << 4, 3 << 4, (2 << 4) | 1, (2 << 4) | (1 << 13), (2 << 4) | (1 << 10) | (1 << 11)];
    let payloads: [&[u8]; 4] = [&[0xa1, 0xa2, 0xa3], &[], &[0xa1], &[0xa1, 0xa2]];
    let suffixes: [&[u8]; 3] = [&[], &[0xee], &[0xc8, 0x02]];
    let mut buf: Vec<u8> = Vec::new();
    let _ = tier;
    let st = explore(None, |c: &mut Chooser| {
        let sub = c.pick(16) as u16;
        let variant = *c.of(&variants);
        if !ctx.mine_key(c.prefix_key()) {
            return true;
        }
        let mut flags = variant;
        let (has_l, has_s, has_o, has_p) = (sub & 1 != 0, sub & 2 != 0, sub & 4 != 0, sub & 8 != 0);
        if has_l {
            flags |= spec::F_L;
        }
        if has_s {
            flags |= spec::F_S;
        }
        if has_o {
            flags |= spec::F_O;
        }
        if has_p {
            flags |= spec::F_P;
        }
        let payload = *c.of(&payloads);
        let suffix = *c.of(&suffixes);
        let pad: usize = if has_o { *c.of(&[1usize, 0, 2]) } else { 0 };
        let hdr = 2 + 4 + if has_l { 2 } else { 0 } + if has_s { 4 } else { 0 } + if has_o { 2 } else { 0 };
        let truelen = hdr + pad + payload.len();
        let avail = truelen + suffix.len();
        // offset size field: true pad size or a deviation
        let offset_field: u16 = if has_o {
            let rest = pad + payload.len() + suffix.len();
            match c.pick(7) {
                0 => pad as u16,
                1 => 0,
                2 => rest.saturating_sub(1) as u16,
                3 => rest as u16,
                4 => (rest + 1) as u16,
                5 => 0xffff,
                _ => (pad + 1) as u16,
            }
        } else {
            0
        };
        let length_field: u16 = if has_l {
            match c.pick(10) {
                0 => truelen as u16,
                1 => 0,
                2 => (hdr - 1) as u16,
                3 => hdr as u16,
                4 => (hdr + 1) as u16,
                5 => (truelen - 1) as u16,
                6 => (truelen + 1) as u16,
                7 => (avail + 1) as u16,
                8 => (hdr + pad) as u16,
                _ => 0xffff,
            }
        } else {
            0
        };
        buf.clear();
        buf.extend_from_slice(&flags.to_be_bytes());
        if has_l {
            buf.extend_from_slice(&length_field.to_be_bytes());
        }
        buf.extend_from_slice(&TID.to_be_bytes());
        buf.extend_from_slice(&SID.to_be_bytes());
        if has_s {
            buf.extend_from_slice(&NS.to_be_bytes());
            buf.extend_from_slice(&NR.to_be_bytes());
        }
        if has_o {
            buf.extend_from_slice(&offset_field.to_be_bytes());
            for i in 0..pad {
                buf.push(0xe0 + i as u8);
            }
        }
        buf.extend_from_slice(payload);
        buf.extend_from_slice(suffix);
        let cut = c.pick(buf.len() as u32 + 1) as usize;
        let n = buf.len() - cut;
        sink(
            ctx,
            &WireCase {
                family: "W5",
                entry: Entry::Message,
                bytes: &buf[..n],
                body_level: false,
            },
        );
        !ctx.out_of_time()
    });
    ctx.states += st.states;
    ctx.transitions += st.transitions;
}

// ---------------------------------------------------------------------------------------------
// W6: size extremes

pub fn w6(ctx: &mut Ctx, _tier: Tier, sink: Sink) {
    let mut cases: Vec<(Entry, Vec<u8>)> = Vec::new();
    // control Length 65 535 with a full body of maximal AVPs
    {
        let mut body = good_message_type();
        while body.len() + 1023 <= 65535 - 12 {
            body.extend_from_slice(&avp_record(0x01, 0, 7, &ramp(1017)));
        }
        let rest = 65535 - 12 - body.len();
        if rest >= 7 {
            body.extend_from_slice(&avp_record(0x01, 0, 11, &ramp(rest - 6)));
        }
        let mut m = control_header(spec::F_CANON_CONTROL, (12 + body.len()) as u16, TID, SID, NS, NR);
        m.extend_from_slice(&body);
        cases.push((Entry::Message, m.clone()));
        m.extend_from_slice(&ramp(5000));
        cases.push((Entry::Message, m));
    }
    // 10 900 six-octet AVPs (termination / time)
    {
        let mut body = good_message_type();
        for _ in 0..10_900 {
            body.extend_from_slice(&avp_record(0x01, 0, 39, &[]));
        }
        cases.push((Entry::AvpList, body.clone()));
        let mut m = control_header(spec::F_CANON_CONTROL, (12 + body.len()) as u16, TID, SID, NS, NR);
        m.extend_from_slice(&body);
        cases.push((Entry::Message, m));
    }
    // very many records in a bare AVP region (no message can hold them: only the list entry point):
    // 200 000 six-octet AVPs, and 50 000 eight-octet ones followed by an unusable length
    {
        let mut body = Vec::with_capacity(1_200_000);
        for _ in 0..200_000 {
            body.extend_from_slice(&avp_record(0x01, 0, 39, &[]));
        }
        cases.push((Entry::AvpList, body));
        let mut body = Vec::with_capacity(400_006);
        for _ in 0..50_000 {
            body.extend_from_slice(&avp_record(0x01, 0, 9, &[0x12, 0x34]));
        }
        body.extend_from_slice(&avp_header(0x01, 3, 0, 9));
        cases.push((Entry::AvpList, body));
    }
    // bare AVP region longer than any length field can describe
    {
        let mut body = Vec::new();
        for i in 0..70 {
            body.extend_from_slice(&avp_record(0x01, 0, 7, &ramp(1000 + (i % 17))));
        }
        body.extend_from_slice(&avp_header(0x01, 5, 0, 9));
        body.extend_from_slice(&ramp(66_000));
        cases.push((Entry::AvpList, body));
    }
    // data messages of 65 535 and 70 000 octets, with and without L
    for total in [65_535usize, 70_000] {
        let mut m = vec![0x00, 0x20];
        m.extend_from_slice(&TID.to_be_bytes());
        m.extend_from_slice(&SID.to_be_bytes());
        m.extend_from_slice(&ramp(total - 6));
        cases.push((Entry::Message, m));
        let mut m = vec![0x02, 0x20, 0xff, 0xff];
        m.extend_from_slice(&TID.to_be_bytes());
        m.extend_from_slice(&SID.to_be_bytes());
        m.extend_from_slice(&ramp(total - 8));
        cases.push((Entry::Message, m));
    }
    // data messages whose offset padding alone is almost 64 KiB and really present: header size
    // plus padding passes 65 535 (any 16-bit intermediate wraps), with and without L and S
    for has_l in [true, false] {
        for has_s in [false, true] {
            let hdr = 2 + 4 + if has_l { 2 } else { 0 } + if has_s { 4 } else { 0 } + 2;
            for offset in 0xffecu16..=0xffff {
                let lengths: Vec<u16> = if has_l {
                    vec![0xffff, (hdr as u32 + offset as u32) as u16, (hdr as u32 + offset as u32 + 3) as u16, 20]
                } else {
                    vec![0]
                };
                for length in lengths {
                    let mut flags: u16 = (2 << 4) | spec::F_O;
                    if has_l {
                        flags |= spec::F_L;
                    }
                    if has_s {
                        flags |= spec::F_S;
                    }
                    let mut m = flags.to_be_bytes().to_vec();
                    if has_l {
                        m.extend_from_slice(&length.to_be_bytes());
                    }
                    m.extend_from_slice(&TID.to_be_bytes());
                    m.extend_from_slice(&SID.to_be_bytes());
                    if has_s {
                        m.extend_from_slice(&NS.to_be_bytes());
                        m.extend_from_slice(&NR.to_be_bytes());
                    }
                    m.extend_from_slice(&offset.to_be_bytes());
                    m.extend_from_slice(&ramp(offset as usize + 40));
                    cases.push((Entry::Message, m));
                }
            }
        }
    }
    for (entry, bytes) in cases {
        if !ctx.mine() {
            continue;
        }
        ctx.states += 1;
        ctx.transitions += 1;
        sink(
            ctx,
            &WireCase {
                family: "W6",
                entry,
                bytes: &bytes,
                body_level: false,
            },
        );
    }
}

/// The whole wire sweep.
pub fn wire(ctx: &mut Ctx, tier: Tier, sink: Sink) {
    w0(ctx, tier, sink);
    w1(ctx, tier, sink);
    w2(ctx, tier, sink);
    w3(ctx, tier, sink);
    if tier.thorough() {
        w3_first_words(ctx, tier, sink);
    }
    w4(ctx, tier, sink);
    w5(ctx, tier, sink);
    w6(ctx, tier, sink);
}
