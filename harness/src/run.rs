//! Running the implementation on one case, through the different readers, with panics contained.

use crate::bridge;
use crate::ctx::guarded;
use crate::monitor::{Mon, R2, R3, R4};
use crate::spec::{SAvp, SMessage};
use core::borrow::Borrow;
use rl2tp::avp::types::*;
use rl2tp::avp::AVP;
use rl2tp::common::{DecodeError, DecodeResult, Reader, SliceReader};
use rl2tp::Message;
use std::cell::RefCell;

pub type Panic = (String, String);
pub type MsgOut = Result<SMessage, Vec<DecodeError>>;
pub type AvpsOut = Vec<Result<SAvp, DecodeError>>;

#[derive(Clone, Copy, Debug, PartialEq, Eq)]
pub enum ReaderKind {
    Slice,
    /// monitored slice-backed, `bytes` overrun consumes nothing
    R2a,
    /// monitored slice-backed, `bytes` overrun consumes everything
    R2b,
    /// monitored owning (`T = Vec<u8>`), overrun consumes nothing
    R3a,
    /// monitored owning, overrun consumes everything
    R3b,
    /// monitored slice-backed, position shared behind an Rc (overrun consumes nothing)
    R4,
}

pub const MONITORED: [ReaderKind; 5] = [ReaderKind::R2a, ReaderKind::R2b, ReaderKind::R3a, ReaderKind::R3b, ReaderKind::R4];

pub fn decode_msg_with<T: Borrow<[u8]>, R: Reader<T>>(r: &mut R, opts: Option<u8>) -> MsgOut {
    let res = match opts {
        None => Message::<T>::try_read(r),
        Some(o) => Message::<T>::try_read_validate(r, bridge::options(o)),
    };
    res.map(|m| bridge::message_to_spec(&m))
}

pub fn decode_avps_with<T: Borrow<[u8]>, R: Reader<T>>(r: &mut R) -> AvpsOut {
    AVP::try_read_greedy(r)
        .into_iter()
        .map(|x| x.map(|a| bridge::avp_to_spec(&a)))
        .collect()
}

/// The payload decoder of attribute `attr` driven directly (public `types::X::try_read`).
pub fn decode_type_with<T: Borrow<[u8]>, R: Reader<T>>(attr: u16, r: &mut R) -> Option<DecodeResult<SAvp>> {
    fn w<X>(x: DecodeResult<X>, f: impl Fn(X) -> AVP) -> DecodeResult<SAvp> {
        x.map(|v| bridge::avp_to_spec(&f(v)))
    }
    Some(match attr {
        0 => w(MessageType::try_read(r), AVP::MessageType),
        1 => w(ResultCode::try_read(r), AVP::ResultCode),
        2 => w(ProtocolVersion::try_read(r), AVP::ProtocolVersion),
        3 => w(FramingCapabilities::try_read(r), AVP::FramingCapabilities),
        4 => w(BearerCapabilities::try_read(r), AVP::BearerCapabilities),
        5 => w(TieBreaker::try_read(r), AVP::TieBreaker),
        6 => w(FirmwareRevision::try_read(r), AVP::FirmwareRevision),
        7 => w(HostName::try_read(r), AVP::HostName),
        8 => w(VendorName::try_read(r), AVP::VendorName),
        9 => w(AssignedTunnelId::try_read(r), AVP::AssignedTunnelId),
        10 => w(ReceiveWindowSize::try_read(r), AVP::ReceiveWindowSize),
        11 => w(Challenge::try_read(r), AVP::Challenge),
        12 => w(Q931CauseCode::try_read(r), AVP::Q931CauseCode),
        13 => w(ChallengeResponse::try_read(r), AVP::ChallengeResponse),
        14 => w(AssignedSessionId::try_read(r), AVP::AssignedSessionId),
        15 => w(CallSerialNumber::try_read(r), AVP::CallSerialNumber),
        16 => w(MinimumBps::try_read(r), AVP::MinimumBps),
        17 => w(MaximumBps::try_read(r), AVP::MaximumBps),
        18 => w(BearerType::try_read(r), AVP::BearerType),
        19 => w(FramingType::try_read(r), AVP::FramingType),
        21 => w(CalledNumber::try_read(r), AVP::CalledNumber),
        22 => w(CallingNumber::try_read(r), AVP::CallingNumber),
        23 => w(SubAddress::try_read(r), AVP::SubAddress),
        24 => w(TxConnectSpeed::try_read(r), AVP::TxConnectSpeed),
        25 => w(PhysicalChannelId::try_read(r), AVP::PhysicalChannelId),
        26 => w(InitialReceivedLcpConfReq::try_read(r), AVP::InitialReceivedLcpConfReq),
        27 => w(LastSentLcpConfReq::try_read(r), AVP::LastSentLcpConfReq),
        28 => w(LastReceivedLcpConfReq::try_read(r), AVP::LastReceivedLcpConfReq),
        29 => w(ProxyAuthenType::try_read(r), AVP::ProxyAuthenType),
        30 => w(ProxyAuthenName::try_read(r), AVP::ProxyAuthenName),
        31 => w(ProxyAuthenChallenge::try_read(r), AVP::ProxyAuthenChallenge),
        32 => w(ProxyAuthenId::try_read(r), AVP::ProxyAuthenId),
        33 => w(ProxyAuthenResponse::try_read(r), AVP::ProxyAuthenResponse),
        34 => w(CallErrors::try_read(r), AVP::CallErrors),
        35 => w(Accm::try_read(r), AVP::Accm),
        36 => w(RandomVector::try_read(r), AVP::RandomVector),
        37 => w(PrivateGroupId::try_read(r), AVP::PrivateGroupId),
        38 => w(RxConnectSpeed::try_read(r), AVP::RxConnectSpeed),
        _ => return None,
    })
}

/// What a monitored run observed besides the result.
#[derive(Debug, Default)]
pub struct Observed {
    pub remaining: usize,
    pub mon: Option<Mon>,
}

macro_rules! with_reader {
    ($kind:expr, $bytes:expr, $sites:expr, |$r:ident| $body:expr) => {{
        match $kind {
            ReaderKind::Slice => {
                let mut $r = SliceReader::from($bytes);
                let out = guarded(|| {
                    let o = $body;
                    (o, Reader::len(&$r))
                });
                match out {
                    Ok((o, rem)) => (
                        Ok(o),
                        Observed {
                            remaining: rem,
                            mon: None,
                        },
                    ),
                    Err(p) => (Err(p), Observed::default()),
                }
            }
            ReaderKind::R2a | ReaderKind::R2b => {
                let m = Mon::new($kind == ReaderKind::R2b);
                let mon = RefCell::new(if $sites { m.with_sites() } else { m });
                let out = {
                    let mut $r = R2::new($bytes, &mon);
                    guarded(|| {
                        let o = $body;
                        (o, Reader::len(&$r))
                    })
                };
                let mon = mon.into_inner();
                match out {
                    Ok((o, rem)) => (
                        Ok(o),
                        Observed {
                            remaining: rem,
                            mon: Some(mon),
                        },
                    ),
                    Err(p) => (
                        Err(p),
                        Observed {
                            remaining: 0,
                            mon: Some(mon),
                        },
                    ),
                }
            }
            ReaderKind::R4 => {
                let m = Mon::new(false);
                let mon = RefCell::new(if $sites { m.with_sites() } else { m });
                let out = {
                    let mut $r = R4::new($bytes, &mon);
                    guarded(|| {
                        let o = $body;
                        (o, Reader::len(&$r))
                    })
                };
                let mon = mon.into_inner();
                match out {
                    Ok((o, rem)) => (
                        Ok(o),
                        Observed {
                            remaining: rem,
                            mon: Some(mon),
                        },
                    ),
                    Err(p) => (
                        Err(p),
                        Observed {
                            remaining: 0,
                            mon: Some(mon),
                        },
                    ),
                }
            }
            ReaderKind::R3a | ReaderKind::R3b => {
                let m = Mon::new($kind == ReaderKind::R3b);
                let mon = RefCell::new(if $sites { m.with_sites() } else { m });
                let out = {
                    let mut $r = R3::new($bytes, &mon);
                    guarded(|| {
                        let o = $body;
                        (o, Reader::len(&$r))
                    })
                };
                let mon = mon.into_inner();
                match out {
                    Ok((o, rem)) => (
                        Ok(o),
                        Observed {
                            remaining: rem,
                            mon: Some(mon),
                        },
                    ),
                    Err(p) => (
                        Err(p),
                        Observed {
                            remaining: 0,
                            mon: Some(mon),
                        },
                    ),
                }
            }
        }
    }};
}

pub fn decode_msg(kind: ReaderKind, bytes: &[u8], opts: Option<u8>, sites: bool) -> (Result<MsgOut, Panic>, Observed) {
    with_reader!(kind, bytes, sites, |r| decode_msg_with(&mut r, opts))
}

pub fn decode_avps(kind: ReaderKind, bytes: &[u8], sites: bool) -> (Result<AvpsOut, Panic>, Observed) {
    with_reader!(kind, bytes, sites, |r| decode_avps_with(&mut r))
}

pub fn decode_type(kind: ReaderKind, attr: u16, bytes: &[u8], sites: bool) -> (Result<Option<DecodeResult<SAvp>>, Panic>, Observed) {
    with_reader!(kind, bytes, sites, |r| decode_type_with(attr, &mut r))
}

pub fn errs_debug(e: &[DecodeError]) -> String {
    format!("{e:?}")
}
