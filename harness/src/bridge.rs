//! Maps crate values to specification values (and back) through public fields, constructors and
//! accessors only.

use crate::spec::{SAvp, SMessage, SVal};
use core::borrow::Borrow;
use rl2tp::avp::types::result_code::{CdnCode, CodeValue, Error as RcError, ErrorType, StopCcnCode};
use rl2tp::avp::types::*;
use rl2tp::avp::AVP;
use rl2tp::common::{SliceReader, VecWriter};
use rl2tp::{ControlMessage, DataMessage, Message, ValidateReserved, ValidateUnused, ValidateVersion, ValidationOptions};

pub fn options(opts: u8) -> ValidationOptions {
    ValidationOptions {
        reserved: if opts & crate::spec::OPT_RESERVED != 0 {
            ValidateReserved::Yes
        } else {
            ValidateReserved::No
        },
        version: if opts & crate::spec::OPT_VERSION != 0 {
            ValidateVersion::Yes
        } else {
            ValidateVersion::No
        },
        unused: if opts & crate::spec::OPT_UNUSED != 0 {
            ValidateUnused::Yes
        } else {
            ValidateUnused::No
        },
    }
}

/// RFC 2661 §3.2 message type numbers for the crate's named values (own table).
pub fn message_type_code(m: &MessageType) -> u16 {
    use MessageType::*;
    match m {
        StartControlConnectionRequest => 1,
        StartControlConnectionReply => 2,
        StartControlConnectionConnected => 3,
        StopControlConnectionNotification => 4,
        Hello => 6,
        OutgoingCallRequest => 7,
        OutgoingCallReply => 8,
        OutgoingCallConnected => 9,
        IncomingCallRequest => 10,
        IncomingCallReply => 11,
        IncomingCallConnected => 12,
        CallDisconnectNotify => 14,
        WanErrorNotify => 15,
        SetLinkInfo => 16,
    }
}

pub fn message_type_from_code(c: u16) -> Option<MessageType> {
    use MessageType::*;
    Some(match c {
        1 => StartControlConnectionRequest,
        2 => StartControlConnectionReply,
        3 => StartControlConnectionConnected,
        4 => StopControlConnectionNotification,
        6 => Hello,
        7 => OutgoingCallRequest,
        8 => OutgoingCallReply,
        9 => OutgoingCallConnected,
        10 => IncomingCallRequest,
        11 => IncomingCallReply,
        12 => IncomingCallConnected,
        14 => CallDisconnectNotify,
        15 => WanErrorNotify,
        16 => SetLinkInfo,
        _ => return None,
    })
}

pub const ALL_MESSAGE_TYPES: [MessageType; 14] = {
    use MessageType::*;
    [
        StartControlConnectionRequest,
        StartControlConnectionReply,
        StartControlConnectionConnected,
        StopControlConnectionNotification,
        Hello,
        OutgoingCallRequest,
        OutgoingCallReply,
        OutgoingCallConnected,
        IncomingCallRequest,
        IncomingCallReply,
        IncomingCallConnected,
        CallDisconnectNotify,
        WanErrorNotify,
        SetLinkInfo,
    ]
};

/// RFC 2661 §4.4.2 general error codes (own table).
pub fn error_type_code(e: &ErrorType) -> u16 {
    use ErrorType::*;
    match e {
        Ok => 0,
        NoControlConnectionExists => 1,
        WrongLength => 2,
        OutOfRangeOrBadReserved => 3,
        InsufficientResources => 4,
        InvalidSessionId => 5,
        Generic => 6,
        TryAnotherDestination => 7,
        UnknownMandatoryAvp => 8,
    }
}

pub const ALL_ERROR_TYPES: [ErrorType; 9] = {
    use ErrorType::*;
    [
        Ok,
        NoControlConnectionExists,
        WrongLength,
        OutOfRangeOrBadReserved,
        InsufficientResources,
        InvalidSessionId,
        Generic,
        TryAnotherDestination,
        UnknownMandatoryAvp,
    ]
};

pub fn error_type_from_code(c: u16) -> Option<ErrorType> {
    ALL_ERROR_TYPES.get(c as usize).copied()
}

/// RFC 2661 §4.4.5 proxy authen type numbers (own table).
pub fn proxy_authen_type_code(p: &ProxyAuthenType) -> u16 {
    use ProxyAuthenType::*;
    match p {
        Reserved => 0,
        TextualUserNamePasswordExchange => 1,
        PppChap => 2,
        PppPap => 3,
        NoAuthentication => 4,
        MicrosoftChapVersion1 => 5,
    }
}

pub const ALL_PROXY_AUTHEN_TYPES: [ProxyAuthenType; 6] = {
    use ProxyAuthenType::*;
    [
        Reserved,
        TextualUserNamePasswordExchange,
        PppChap,
        PppPap,
        NoAuthentication,
        MicrosoftChapVersion1,
    ]
};

pub fn proxy_authen_type_from_code(c: u16) -> Option<ProxyAuthenType> {
    ALL_PROXY_AUTHEN_TYPES.get(c as usize).copied()
}

/// RFC 2661 §4.4.2 Stop-CCN result codes (own table).
pub fn stop_ccn_code(c: &StopCcnCode) -> u16 {
    use StopCcnCode::*;
    match c {
        Reserved => 0,
        GeneralRequestToClearControlConnection => 1,
        GeneralError => 2,
        ControlChannelAlreadyExists => 3,
        RequesterNotAuthorizedToEstablishControlChannel => 4,
        RequesterProtocolVersionUnsupported => 5,
        RequesterShutdown => 6,
        FsmError => 7,
    }
}

pub const ALL_STOP_CCN: [StopCcnCode; 8] = {
    use StopCcnCode::*;
    [
        Reserved,
        GeneralRequestToClearControlConnection,
        GeneralError,
        ControlChannelAlreadyExists,
        RequesterNotAuthorizedToEstablishControlChannel,
        RequesterProtocolVersionUnsupported,
        RequesterShutdown,
        FsmError,
    ]
};

/// RFC 2661 §4.4.2 CDN result codes (own table).
pub fn cdn_code(c: &CdnCode) -> u16 {
    use CdnCode::*;
    match c {
        Reserved => 0,
        CallDisconnectedLossOfCarrier => 1,
        CallDisconnectedWithErrorCode => 2,
        CallDisconnectedAdministrative => 3,
        CallFailedTemporarilyUnavailable => 4,
        CallFailedPermanentlyUnavailable => 5,
        InvalidDestination => 6,
        CallFailedNoCarrier => 7,
        CallFailedBusySignal => 8,
        CallFailedNoDialTone => 9,
        CallEstablishTimeout => 10,
        CallNoFramingDetected => 11,
    }
}

pub const ALL_CDN: [CdnCode; 12] = {
    use CdnCode::*;
    [
        Reserved,
        CallDisconnectedLossOfCarrier,
        CallDisconnectedWithErrorCode,
        CallDisconnectedAdministrative,
        CallFailedTemporarilyUnavailable,
        CallFailedPermanentlyUnavailable,
        InvalidDestination,
        CallFailedNoCarrier,
        CallFailedBusySignal,
        CallFailedNoDialTone,
        CallEstablishTimeout,
        CallNoFramingDetected,
    ]
};

/// The private 32-bit word of a bitmask AVP, observed through the encoder (last four octets).
pub fn bits_word(a: &AVP) -> u32 {
    let mut w = VecWriter::new();
    a.write(&mut w);
    let d = &w.data;
    if d.len() < 4 {
        return 0;
    }
    u32::from_be_bytes([d[d.len() - 4], d[d.len() - 3], d[d.len() - 2], d[d.len() - 1]])
}

/// (accessor for the bit-6 flag, accessor for the bit-7 flag) of the four bitmask kinds:
/// framing capabilities A(sync)=bit 6, S(ync)=bit 7; bearer capabilities A(nalog)=bit 6,
/// D(igital)=bit 7; bearer type A=bit 6, D=bit 7; framing type A=bit 6, S/D=bit 7 (DESIGN §2.1).
pub fn bits_accessors(a: &AVP) -> Option<(bool, bool)> {
    Some(match a {
        AVP::FramingCapabilities(x) => (x.is_async_framing_supported(), x.is_sync_framing_supported()),
        AVP::BearerCapabilities(x) => (x.is_analog_access_supported(), x.is_digital_access_supported()),
        AVP::BearerType(x) => (x.is_analog_request(), x.is_digital_request()),
        AVP::FramingType(x) => (x.is_analog_request(), x.is_digital_request()),
        _ => return None,
    })
}

/// Text fields as the harness keeps them. A library change can hand back a `String` that is not
/// UTF-8 (built unchecked); formatting such a value panics inside the harness, so it is made
/// printable here — the replacement characters still differ from anything the specification
/// produces, and the checks report the value as wrong.
fn txt(s: &String) -> String {
    String::from_utf8_lossy(s.as_bytes()).into_owned()
}

pub fn avp_to_spec(a: &AVP) -> SAvp {
    let plain = |attr: u16, val: SVal| SAvp::Plain { attr, val };
    match a {
        AVP::MessageType(m) => plain(0, SVal::MessageType(message_type_code(m))),
        AVP::ResultCode(r) => plain(
            1,
            SVal::ResultCode {
                code: u16::from(r.code),
                error: r
                    .error
                    .as_ref()
                    .map(|e| (error_type_code(&e.error_type), e.error_message.as_ref().map(txt))),
            },
        ),
        AVP::ProtocolVersion(p) => plain(2, SVal::ProtoVer(p.version, p.revision)),
        AVP::FramingCapabilities(_) => plain(3, SVal::Bits(bits_word(a))),
        AVP::BearerCapabilities(_) => plain(4, SVal::Bits(bits_word(a))),
        AVP::TieBreaker(t) => plain(5, SVal::U64(t.value)),
        AVP::FirmwareRevision(x) => plain(6, SVal::U16(x.value)),
        AVP::HostName(x) => plain(7, SVal::Bytes(x.value.clone())),
        AVP::VendorName(x) => plain(8, SVal::Str(txt(&x.value))),
        AVP::AssignedTunnelId(x) => plain(9, SVal::U16(x.value)),
        AVP::ReceiveWindowSize(x) => plain(10, SVal::U16(x.value)),
        AVP::Challenge(x) => plain(11, SVal::Bytes(x.value.clone())),
        AVP::Q931CauseCode(x) => plain(
            12,
            SVal::Q931 {
                code: x.cause_code,
                msg: x.cause_msg,
                adv: x.advisory.as_ref().map(txt),
            },
        ),
        AVP::ChallengeResponse(x) => plain(13, SVal::Fix16(x.value)),
        AVP::AssignedSessionId(x) => plain(14, SVal::U16(x.value)),
        AVP::CallSerialNumber(x) => plain(15, SVal::U32(x.value)),
        AVP::MinimumBps(x) => plain(16, SVal::U32(x.value)),
        AVP::MaximumBps(x) => plain(17, SVal::U32(x.value)),
        AVP::BearerType(_) => plain(18, SVal::Bits(bits_word(a))),
        AVP::FramingType(_) => plain(19, SVal::Bits(bits_word(a))),
        AVP::CalledNumber(x) => plain(21, SVal::Str(txt(&x.value))),
        AVP::CallingNumber(x) => plain(22, SVal::Str(txt(&x.value))),
        AVP::SubAddress(x) => plain(23, SVal::Str(txt(&x.value))),
        AVP::TxConnectSpeed(x) => plain(24, SVal::U32(x.value)),
        AVP::PhysicalChannelId(x) => plain(25, SVal::Fix4(x.value)),
        AVP::InitialReceivedLcpConfReq(x) => plain(26, SVal::Bytes(x.value.clone())),
        AVP::LastSentLcpConfReq(x) => plain(27, SVal::Bytes(x.value.clone())),
        AVP::LastReceivedLcpConfReq(x) => plain(28, SVal::Bytes(x.value.clone())),
        AVP::ProxyAuthenType(x) => plain(29, SVal::PAType(proxy_authen_type_code(x))),
        AVP::ProxyAuthenName(x) => plain(30, SVal::Bytes(x.value.clone())),
        AVP::ProxyAuthenChallenge(x) => plain(31, SVal::Bytes(x.value.clone())),
        AVP::ProxyAuthenId(x) => plain(32, SVal::PAId(x.value)),
        AVP::ProxyAuthenResponse(x) => plain(33, SVal::Bytes(x.value.clone())),
        AVP::CallErrors(x) => plain(
            34,
            SVal::CallErrors([
                x.crc_errors,
                x.framing_errors,
                x.hardware_overruns,
                x.buffer_overruns,
                x.timeout_errors,
                x.alignment_errors,
            ]),
        ),
        AVP::Accm(x) => plain(35, SVal::Accm(x.send_accm, x.receive_accm)),
        AVP::RandomVector(x) => plain(36, SVal::Fix4(x.value)),
        AVP::PrivateGroupId(x) => plain(37, SVal::Bytes(x.value.clone())),
        AVP::RxConnectSpeed(x) => plain(38, SVal::U32(x.value)),
        AVP::SequencingRequired(_) => plain(39, SVal::Empty),
        AVP::Hidden(h) => SAvp::Hidden {
            attr: h.attribute_type,
            value: h.value.clone(),
        },
    }
}

/// Name of the AVP variant as `Debug` prints it (used by C20's name cross-check).
pub fn variant_name(a: &AVP) -> String {
    let s = format!("{a:?}");
    s.split(|c: char| !c.is_alphanumeric()).next().unwrap_or("").to_string()
}

fn bits_from_word<K>(word: u32, f: impl Fn(&mut SliceReader) -> rl2tp::common::DecodeResult<K>) -> Option<K> {
    let b = word.to_be_bytes();
    let mut r = SliceReader::from(&b);
    f(&mut r).ok()
}

/// A caller's buffers are seldom exactly full: values handed to the crate carry spare capacity,
/// so that anything computed from `capacity()` rather than `len()` shows.
fn roomy(v: &Vec<u8>) -> Vec<u8> {
    let mut o = Vec::with_capacity(v.len() + 11);
    o.extend_from_slice(v);
    o
}

fn roomy_s(v: &String) -> String {
    let mut o = String::with_capacity(v.len() + 11);
    o.push_str(v);
    o
}

/// Build the crate value for a specification value; `None` when the crate's types cannot
/// represent it (unassigned enumerated code, wrong-kind value for the attribute number).
pub fn avp_to_crate(a: &SAvp) -> Option<AVP> {
    Some(match a {
        SAvp::Hidden { attr, value } => AVP::Hidden(Hidden {
            attribute_type: *attr,
            value: roomy(value),
        }),
        SAvp::Plain { attr, val } => match (*attr, val) {
            (0, SVal::MessageType(c)) => AVP::MessageType(message_type_from_code(*c)?),
            (1, SVal::ResultCode { code, error }) => AVP::ResultCode(ResultCode {
                code: CodeValue::from(*code),
                error: match error {
                    None => None,
                    Some((et, m)) => Some(RcError {
                        error_type: error_type_from_code(*et)?,
                        error_message: m.as_ref().map(roomy_s),
                    }),
                },
            }),
            (2, SVal::ProtoVer(v, r)) => AVP::ProtocolVersion(ProtocolVersion {
                version: *v,
                revision: *r,
            }),
            (3, SVal::Bits(w)) => AVP::FramingCapabilities(bits_from_word(*w, |r| FramingCapabilities::try_read(r))?),
            (4, SVal::Bits(w)) => AVP::BearerCapabilities(bits_from_word(*w, |r| BearerCapabilities::try_read(r))?),
            (5, SVal::U64(v)) => AVP::TieBreaker(TieBreaker::from(*v)),
            (6, SVal::U16(v)) => AVP::FirmwareRevision(FirmwareRevision::from(*v)),
            (7, SVal::Bytes(v)) => AVP::HostName(HostName::from(roomy(v))),
            (8, SVal::Str(v)) => AVP::VendorName(VendorName::from(roomy_s(v))),
            (9, SVal::U16(v)) => AVP::AssignedTunnelId(AssignedTunnelId::from(*v)),
            (10, SVal::U16(v)) => AVP::ReceiveWindowSize(ReceiveWindowSize::from(*v)),
            (11, SVal::Bytes(v)) => AVP::Challenge(Challenge::from(roomy(v))),
            (12, SVal::Q931 { code, msg, adv }) => AVP::Q931CauseCode(Q931CauseCode {
                cause_code: *code,
                cause_msg: *msg,
                advisory: adv.as_ref().map(roomy_s),
            }),
            (13, SVal::Fix16(v)) => AVP::ChallengeResponse(ChallengeResponse::from(*v)),
            (14, SVal::U16(v)) => AVP::AssignedSessionId(AssignedSessionId::from(*v)),
            (15, SVal::U32(v)) => AVP::CallSerialNumber(CallSerialNumber::from(*v)),
            (16, SVal::U32(v)) => AVP::MinimumBps(MinimumBps::from(*v)),
            (17, SVal::U32(v)) => AVP::MaximumBps(MaximumBps::from(*v)),
            (18, SVal::Bits(w)) => AVP::BearerType(bits_from_word(*w, |r| BearerType::try_read(r))?),
            (19, SVal::Bits(w)) => AVP::FramingType(bits_from_word(*w, |r| FramingType::try_read(r))?),
            (21, SVal::Str(v)) => AVP::CalledNumber(CalledNumber::from(roomy_s(v))),
            (22, SVal::Str(v)) => AVP::CallingNumber(CallingNumber::from(roomy_s(v))),
            (23, SVal::Str(v)) => AVP::SubAddress(SubAddress::from(roomy_s(v))),
            (24, SVal::U32(v)) => AVP::TxConnectSpeed(TxConnectSpeed::from(*v)),
            (25, SVal::Fix4(v)) => AVP::PhysicalChannelId(PhysicalChannelId::from(*v)),
            (26, SVal::Bytes(v)) => AVP::InitialReceivedLcpConfReq(InitialReceivedLcpConfReq::from(roomy(v))),
            (27, SVal::Bytes(v)) => AVP::LastSentLcpConfReq(LastSentLcpConfReq::from(roomy(v))),
            (28, SVal::Bytes(v)) => AVP::LastReceivedLcpConfReq(LastReceivedLcpConfReq::from(roomy(v))),
            (29, SVal::PAType(c)) => AVP::ProxyAuthenType(proxy_authen_type_from_code(*c)?),
            (30, SVal::Bytes(v)) => AVP::ProxyAuthenName(ProxyAuthenName::from(roomy(v))),
            (31, SVal::Bytes(v)) => AVP::ProxyAuthenChallenge(ProxyAuthenChallenge::from(roomy(v))),
            (32, SVal::PAId(v)) => AVP::ProxyAuthenId(ProxyAuthenId::from(*v)),
            (33, SVal::Bytes(v)) => AVP::ProxyAuthenResponse(ProxyAuthenResponse::from(roomy(v))),
            (34, SVal::CallErrors(a)) => AVP::CallErrors(CallErrors {
                crc_errors: a[0],
                framing_errors: a[1],
                hardware_overruns: a[2],
                buffer_overruns: a[3],
                timeout_errors: a[4],
                alignment_errors: a[5],
            }),
            (35, SVal::Accm(s, r)) => AVP::Accm(Accm {
                send_accm: *s,
                receive_accm: *r,
            }),
            (36, SVal::Fix4(v)) => AVP::RandomVector(RandomVector::from(*v)),
            (37, SVal::Bytes(v)) => AVP::PrivateGroupId(PrivateGroupId::from(roomy(v))),
            (38, SVal::U32(v)) => AVP::RxConnectSpeed(RxConnectSpeed::from(*v)),
            (39, SVal::Empty) => AVP::SequencingRequired(SequencingRequired::default()),
            _ => return None,
        },
    })
}

pub fn control_to_spec(c: &ControlMessage) -> SMessage {
    SMessage::Control {
        length: c.length,
        tid: c.tunnel_id,
        sid: c.session_id,
        ns: c.ns,
        nr: c.nr,
        avps: c.avps.iter().map(avp_to_spec).collect(),
    }
}

pub fn data_to_spec<T: Borrow<[u8]>>(d: &DataMessage<T>) -> SMessage {
    SMessage::Data {
        prio: d.is_prioritized,
        length: d.length,
        tid: d.tunnel_id,
        sid: d.session_id,
        ns_nr: d.ns_nr,
        offset: d.offset,
        data: d.data.borrow().to_vec(),
    }
}

pub fn message_to_spec<T: Borrow<[u8]>>(m: &Message<T>) -> SMessage {
    match m {
        Message::Control(c) => control_to_spec(c),
        Message::Data(d) => data_to_spec(d),
    }
}

pub fn message_to_crate(m: &SMessage) -> Option<Message<Vec<u8>>> {
    Some(match m {
        SMessage::Control {
            length,
            tid,
            sid,
            ns,
            nr,
            avps,
        } => Message::Control(ControlMessage {
            length: *length,
            tunnel_id: *tid,
            session_id: *sid,
            ns: *ns,
            nr: *nr,
            avps: avps.iter().map(avp_to_crate).collect::<Option<Vec<_>>>()?,
        }),
        SMessage::Data {
            prio,
            length,
            tid,
            sid,
            ns_nr,
            offset,
            data,
        } => Message::Data(DataMessage {
            is_prioritized: *prio,
            length: *length,
            tunnel_id: *tid,
            session_id: *sid,
            ns_nr: *ns_nr,
            offset: *offset,
            data: data.clone(),
        }),
    })
}
