//! ENUM — stateless choice-tree explorer. A scenario is a deterministic function of the answers
//! it gets from `Chooser::pick` / `pick_soft`; the explorer re-runs it, advancing the recorded
//! choice vector like an odometer, which enumerates the whole tree depth-first without storing it.
//!
//! Hard points (`pick`) are always enumerated completely. Soft points (`pick_soft`) are
//! deviation-bounded: at most `d` of them take a non-default answer in one execution; the default
//! answer, 0, is the canonical value at that point. `d = None` makes soft points hard (product).

#[derive(Clone, Debug, Default)]
pub struct Chooser {
    /// answers to replay, then extended with defaults
    pub choices: Vec<u32>,
    /// arity seen at each choice point of the current execution
    pub arity: Vec<u32>,
    pub soft: Vec<bool>,
    pos: usize,
    /// first position whose answer differs from the previous execution (for node counting)
    fresh_from: usize,
}

impl Chooser {
    #[inline]
    fn point(&mut self, n: u32, soft: bool) -> u32 {
        let i = self.pos;
        self.pos += 1;
        self.arity.push(n);
        self.soft.push(soft);
        if i < self.choices.len() {
            let c = self.choices[i];
            if c >= n {
                panic!("machinery: replayed choice {c} out of range {n} at point {i}");
            }
            c
        } else {
            self.choices.push(0);
            0
        }
    }
    /// Answer the next (hard) choice point: a value in `0..n`, `n ≥ 1`.
    #[inline]
    pub fn pick(&mut self, n: u32) -> u32 {
        self.point(n, false)
    }
    /// Deviation-bounded choice point; 0 is the canonical answer.
    #[inline]
    pub fn pick_soft(&mut self, n: u32) -> u32 {
        self.point(n, true)
    }
    /// hash of the answers given so far in this execution: a shard key that depends on the
    /// prefix only, so every worker computes the same partition whatever it skips
    #[inline]
    pub fn prefix_key(&self) -> u64 {
        let mut h: u64 = 0xcbf29ce484222325;
        for c in &self.choices[..self.pos] {
            h ^= *c as u64 + 1;
            h = h.wrapping_mul(0x100000001b3);
        }
        h ^= h >> 29;
        h = h.wrapping_mul(0xbf58476d1ce4e5b9);
        h ^= h >> 32;
        h
    }
    #[inline]
    pub fn flag(&mut self) -> bool {
        self.pick(2) == 1
    }
    #[inline]
    pub fn of<'a, T>(&mut self, xs: &'a [T]) -> &'a T {
        &xs[self.pick(xs.len() as u32) as usize]
    }
    #[inline]
    pub fn of_soft<'a, T>(&mut self, xs: &'a [T]) -> &'a T {
        &xs[self.pick_soft(xs.len() as u32) as usize]
    }
}

#[derive(Clone, Copy, Debug, Default)]
pub struct Stats {
    pub states: u64,
    pub transitions: u64,
    pub executions: u64,
}

/// Enumerate the choice tree of `scenario`. The scenario returns `false` to stop the whole
/// exploration early (time cap).
pub fn explore(max_dev: Option<usize>, mut scenario: impl FnMut(&mut Chooser) -> bool) -> Stats {
    let mut ch = Chooser::default();
    let mut st = Stats {
        states: 1,
        transitions: 0,
        executions: 0,
    };
    loop {
        ch.pos = 0;
        ch.arity.clear();
        ch.soft.clear();
        let cont = scenario(&mut ch);
        ch.choices.truncate(ch.pos);
        st.executions += 1;
        let new_edges = (ch.pos - ch.fresh_from.min(ch.pos)) as u64;
        st.transitions += new_edges;
        st.states += new_edges;
        if !cont {
            return st;
        }
        let mut i = ch.choices.len();
        let advanced = loop {
            if i == 0 {
                break false;
            }
            i -= 1;
            if ch.choices[i] + 1 < ch.arity[i] {
                if let (Some(d), true) = (max_dev, ch.soft[i]) {
                    let before = (0..i).filter(|k| ch.soft[*k] && ch.choices[*k] != 0).count();
                    if before + 1 > d {
                        continue;
                    }
                }
                ch.choices[i] += 1;
                ch.choices.truncate(i + 1);
                ch.fresh_from = i;
                break true;
            }
        };
        if !advanced {
            return st;
        }
    }
}

#[cfg(test)]
mod tests {
    use super::*;
    #[test]
    fn product_counts() {
        let mut leaves = Vec::new();
        let st = explore(None, |c| {
            let a = c.pick(3);
            let b = if a == 1 { c.pick(2) } else { 0 };
            leaves.push((a, b));
            true
        });
        assert_eq!(leaves, vec![(0, 0), (1, 0), (1, 1), (2, 0)]);
        assert_eq!(st.executions, 4);
        assert_eq!(st.states, 6);
        assert_eq!(st.transitions, 5);
    }
    #[test]
    fn deviation_bound() {
        let mut n = 0;
        explore(Some(1), |c| {
            let h = c.pick(2);
            let v: Vec<u32> = (0..4).map(|_| c.pick_soft(3)).collect();
            assert!(v.iter().filter(|x| **x != 0).count() <= 1);
            let _ = h;
            n += 1;
            true
        });
        assert_eq!(n, 2 * (1 + 4 * 2));
    }
}
