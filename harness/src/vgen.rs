//! Value space V (DESIGN §4.2): alphabets of specification values that the bridge turns into
//! crate values.

use crate::gen::ramp;
use crate::spec::{self, Kind, SAvp, SVal};

pub fn plain(attr: u16, val: SVal) -> SAvp {
    SAvp::Plain { attr, val }
}

pub fn ascii(n: usize) -> String {
    (0..n).map(|i| (b'a' + (i % 26) as u8) as char).collect()
}

/// a valid UTF-8 string of exactly `n` octets that ends in a multi-octet scalar when it fits
pub fn utf8_of_len(n: usize) -> String {
    let tail: &str = match n {
        0 | 1 => "",
        2 | 3 => "é",
        4 => "€",
        _ => "😀",
    };
    let mut s = ascii(n - tail.len());
    s.push_str(tail);
    s
}

/// One representative value per kind (every data field a distinct sentinel), used by the
/// specification self-check and as the default of value explorations.
pub fn canonical(attr: u16) -> SAvp {
    let (k, _) = spec::kind_of(attr).expect("known attribute");
    let v = match k {
        Kind::MessageType => SVal::MessageType(1),
        Kind::ResultCode => SVal::ResultCode {
            code: 0x0102,
            error: Some((6, Some("err é".to_string()))),
        },
        Kind::ProtoVer => SVal::ProtoVer(1, 0),
        Kind::Bits => SVal::Bits(0x010203c4),
        Kind::U16 => SVal::U16(0x1234),
        Kind::U32 => SVal::U32(0x12345678),
        Kind::U64 => SVal::U64(0x0102030405060708),
        Kind::Bytes => SVal::Bytes(vec![0x10, 0x00, 0xff, 0x7f, 0x80]),
        Kind::Str => SVal::Str("näme".to_string()),
        Kind::Fix4 => SVal::Fix4([0xde, 0xad, 0xbe, 0xef]),
        Kind::Fix16 => SVal::Fix16(ramp(16).try_into().unwrap()),
        Kind::Q931 => SVal::Q931 {
            code: 0x0310,
            msg: 0x7f,
            adv: Some("adv".to_string()),
        },
        Kind::PAType => SVal::PAType(2),
        Kind::PAId => SVal::PAId(0x5a),
        Kind::CallErrors => SVal::CallErrors([0x01020304, 0x11121314, 0x21222324, 0x31323334, 0x41424344, 0x51525354]),
        Kind::Accm => SVal::Accm([1, 2, 3, 4], [0xf1, 0xf2, 0xf3, 0xf4]),
        Kind::Empty => SVal::Empty,
    };
    plain(attr, v)
}

/// Menu of representative AVP values: every kind at least once, extra entries for optional
/// parts absent / present, hidden values. First entry is a Message Type.
pub fn menu_avps() -> Vec<SAvp> {
    let mut v: Vec<SAvp> = spec::ALL_ATTRS.iter().map(|a| canonical(*a)).collect();
    v.push(plain(1, SVal::ResultCode { code: 2, error: None }));
    v.push(plain(1, SVal::ResultCode { code: 0xffff, error: Some((0, None)) }));
    v.push(plain(12, SVal::Q931 { code: 0, msg: 0, adv: None }));
    v.push(plain(7, SVal::Bytes(ramp(1017))));
    v.push(plain(8, SVal::Str(utf8_of_len(250))));
    v.push(SAvp::Hidden { attr: 7, value: ramp(16) });
    v.push(SAvp::Hidden { attr: 0xffff, value: ramp(32) });
    v.push(SAvp::Hidden { attr: 0, value: vec![] });
    v
}

// ---------------------------------------------------------------------------------------------
// scalar alphabets

pub fn u32_boundary() -> Vec<u32> {
    let mut v: Vec<u32> = vec![0, 1, 0x7fff_ffff, 0x8000_0000, 0x8000_0001, 0xffff_ffff, 0x0102_0304];
    for i in 0..32 {
        v.push(1 << i);
        v.push(!(1u32 << i));
    }
    for octet in 0..4 {
        for b in 1..=255u32 {
            v.push(b << (8 * octet));
        }
    }
    v.sort();
    v.dedup();
    v
}

pub fn u64_boundary() -> Vec<u64> {
    let mut v: Vec<u64> = vec![0, 1, u64::MAX, 1 << 63, (1 << 63) - 1, 0x0102_0304_0506_0708];
    for i in 0..64 {
        v.push(1 << i);
        v.push(!(1u64 << i));
    }
    for octet in 0..8 {
        for b in 1..=255u64 {
            v.push(b << (8 * octet));
        }
    }
    v.sort();
    v.dedup();
    v
}

pub fn u16_boundary() -> Vec<u16> {
    let mut v: Vec<u16> = vec![0, 1, 2, 7, 8, 9, 11, 12, 255, 256, 257, 0x7fff, 0x8000, 0xfffe, 0xffff, 0x0102];
    for i in 0..16 {
        v.push(1 << i);
    }
    v.sort();
    v.dedup();
    v
}

/// payload lengths that put the AVP length at 7, 8, 9, 21..23, 255..257, 511/512, 1022/1023
pub const VAR_LENGTHS: [usize; 17] = [1, 2, 3, 15, 16, 17, 249, 250, 251, 254, 255, 256, 257, 505, 506, 1016, 1017];
/// lengths whose AVP would exceed 1023 octets, among them those at which a 12-, 14-, 16- or
/// 17-bit intermediate wraps back into the 10-bit range (4096, 16384, 65536 .. 66559, 131072)
pub const OVERSIZE_LENGTHS: [usize; 12] = [1018, 1019, 2000, 4090, 16_378, 65_529, 65_530, 65_531, 66_000, 66_553, 66_554, 131_072];

fn byte_contents(n: usize) -> Vec<Vec<u8>> {
    let mut v = vec![ramp(n), vec![0u8; n], vec![0xffu8; n]];
    if n >= 2 {
        // NUL / blank at either end (a decoder or encoder that trims would show)
        let mut edge = ramp(n);
        edge[0] = 0;
        edge[n - 1] = 0x20;
        v.push(edge);
    }
    v
}

/// a valid string of exactly `n` octets with everything a "helpful" normalisation would touch:
/// leading and trailing blanks, upper case, an embedded NUL, a tab, a newline, a DEL
pub fn tricky_of_len(n: usize) -> String {
    const PAT: &[u8] = b" Mi\0Xed\tCA se\n\x7f ";
    (0..n).map(|i| PAT[i % PAT.len()] as char).collect()
}

fn str_contents(n: usize) -> Vec<String> {
    if n == 0 {
        return vec![String::new()];
    }
    let mut v = vec![ascii(n), utf8_of_len(n), tricky_of_len(n)];
    // NUL / blank / newline at either end, all NULs
    let mid = ascii(n.saturating_sub(1));
    v.push(format!("{mid}\0"));
    v.push(format!("\0{mid}"));
    v.push(format!("{mid} "));
    v.push(format!(" {mid}"));
    v.push(format!("{mid}\n"));
    v.push("\0".repeat(n));
    // boundary scalars of every UTF-8 length class, and scalars a normalising or trimming
    // decoder would treat specially (BOM, NBSP, NEL, line separator, combining mark, joiner,
    // replacement character, non-characters), at the head and at the tail
    for c in ['\u{feff}', '\u{80}', '\u{85}', '\u{a0}', '\u{301}', '\u{7ff}', '\u{800}', '\u{200d}', '\u{2028}', '\u{d7ff}', '\u{e000}', '\u{fffd}', '\u{ffff}', '\u{10000}', '\u{10ffff}'] {
        let l = c.len_utf8();
        if n >= l {
            let fill = ascii(n - l);
            v.push(format!("{c}{fill}"));
            v.push(format!("{fill}{c}"));
        }
    }
    v.sort();
    v.dedup();
    v
}

/// Value alphabet of one AVP kind. `domain_only`: restrict to the round-trip domain of C03
/// (non-empty variable parts, AVP at most 1023 octets). Otherwise values the encoder accepts but
/// that do not round-trip (empty payloads, `Some("")`) and oversize payloads are included.
/// `full16`: enumerate all 65 536 values of 16-bit fields.
pub fn avp_values(attr: u16, domain_only: bool, full16: bool) -> Vec<SAvp> {
    let (k, _) = spec::kind_of(attr).expect("known attribute");
    let mut out: Vec<SVal> = Vec::new();
    let lengths = |fixed: usize| -> Vec<usize> {
        let mut l: Vec<usize> = VAR_LENGTHS.iter().filter(|x| **x + fixed <= 1017).copied().collect();
        // exact fit of the 1023-octet AVP
        if fixed > 0 && 1017 > fixed {
            l.push(1017 - fixed);
            l.push(1016 - fixed);
        }
        if !domain_only {
            l.push(0);
            l.push(1018 - fixed);
            for o in OVERSIZE_LENGTHS {
                l.push(o);
            }
        }
        l.sort();
        l.dedup();
        l
    };
    match k {
        Kind::MessageType => out.extend(spec::MESSAGE_TYPE_CODES.iter().map(|c| SVal::MessageType(*c))),
        Kind::PAType => out.extend((0..=spec::PROXY_AUTHEN_TYPE_MAX).map(SVal::PAType)),
        Kind::PAId => out.extend((0..=255u8).map(SVal::PAId)),
        Kind::ProtoVer => {
            if full16 {
                for v in 0..=255u8 {
                    for r in 0..=255u8 {
                        out.push(SVal::ProtoVer(v, r));
                    }
                }
            } else {
                for v in [0u8, 1, 2, 0x7f, 0x80, 0xff] {
                    for r in [0u8, 1, 0xfe, 0xff] {
                        out.push(SVal::ProtoVer(v, r));
                    }
                }
            }
        }
        Kind::U16 => {
            if full16 {
                out.extend((0..=0xffffu16).map(SVal::U16));
            } else {
                out.extend(u16_boundary().into_iter().map(SVal::U16));
            }
        }
        Kind::U32 => out.extend(u32_boundary().into_iter().map(SVal::U32)),
        Kind::Bits => out.extend(u32_boundary().into_iter().map(SVal::Bits)),
        Kind::U64 => out.extend(u64_boundary().into_iter().map(SVal::U64)),
        Kind::Bytes => {
            for n in lengths(0) {
                for c in byte_contents(n) {
                    out.push(SVal::Bytes(c));
                }
            }
        }
        Kind::Str => {
            for n in lengths(0) {
                for c in str_contents(n) {
                    out.push(SVal::Str(c));
                }
            }
        }
        Kind::Fix4 => {
            for c in [[0xde, 0xad, 0xbe, 0xef], [0, 0, 0, 0], [0xff; 4], [0, 0, 0, 1], [0x80, 0, 0, 0]] {
                out.push(SVal::Fix4(c));
            }
        }
        Kind::Fix16 => {
            for c in byte_contents(16) {
                out.push(SVal::Fix16(c.try_into().unwrap()));
            }
            let mut one = [0u8; 16];
            one[15] = 1;
            out.push(SVal::Fix16(one));
            one = [0u8; 16];
            one[0] = 0x80;
            out.push(SVal::Fix16(one));
        }
        Kind::ResultCode => {
            let codes: Vec<u16> = if full16 { (0..=0xffff).collect() } else { u16_boundary() };
            for c in &codes {
                out.push(SVal::ResultCode { code: *c, error: None });
            }
            for et in 0..=spec::ERROR_TYPE_MAX {
                out.push(SVal::ResultCode { code: 0x0102, error: Some((et, None)) });
                out.push(SVal::ResultCode { code: 2, error: Some((et, Some("x".into()))) });
            }
            for n in lengths(4) {
                if n == 0 && domain_only {
                    continue;
                }
                for s in str_contents(n) {
                    out.push(SVal::ResultCode { code: 0x0102, error: Some((6, Some(s))) });
                }
            }
        }
        Kind::Q931 => {
            for c in u16_boundary() {
                out.push(SVal::Q931 { code: c, msg: 0x7f, adv: None });
            }
            for m in [0u8, 1, 0x80, 0xff] {
                out.push(SVal::Q931 { code: 0x0310, msg: m, adv: None });
                out.push(SVal::Q931 { code: 0x0310, msg: m, adv: Some("a".into()) });
            }
            for n in lengths(3) {
                if n == 0 && domain_only {
                    continue;
                }
                for s in str_contents(n) {
                    out.push(SVal::Q931 { code: 0x0310, msg: 0x10, adv: Some(s) });
                }
            }
        }
        Kind::CallErrors => {
            let base = [0x01020304u32, 0x11121314, 0x21222324, 0x31323334, 0x41424344, 0x51525354];
            out.push(SVal::CallErrors(base));
            out.push(SVal::CallErrors([0; 6]));
            out.push(SVal::CallErrors([u32::MAX; 6]));
            // deviation-bounded: up to two fields at an extreme
            for i in 0..6 {
                for x in [0u32, u32::MAX, 1, 0x8000_0000] {
                    let mut a = base;
                    a[i] = x;
                    out.push(SVal::CallErrors(a));
                    for j in (i + 1)..6 {
                        for y in [0u32, u32::MAX] {
                            let mut b = a;
                            b[j] = y;
                            out.push(SVal::CallErrors(b));
                        }
                    }
                }
            }
        }
        Kind::Accm => {
            for (s, r) in [
                ([1u8, 2, 3, 4], [0xf1u8, 0xf2, 0xf3, 0xf4]),
                ([0; 4], [0; 4]),
                ([0xff; 4], [0xff; 4]),
                ([0; 4], [0xff; 4]),
                ([0xff; 4], [0; 4]),
                ([0, 0, 0, 1], [0x80, 0, 0, 0]),
            ] {
                out.push(SVal::Accm(s, r));
            }
        }
        Kind::Empty => out.push(SVal::Empty),
    }
    out.into_iter().map(|v| plain(attr, v)).collect()
}

pub fn hidden_values(domain_only: bool, full16: bool) -> Vec<SAvp> {
    let mut out = Vec::new();
    let attrs: Vec<u16> = if full16 { (0..=0xffff).collect() } else { u16_boundary() };
    let mut lens = vec![0usize, 1, 15, 16, 17, 32, 1008, 1017];
    if !domain_only {
        lens.extend([1018, 2000]);
    }
    for n in &lens {
        for a in [7u16, 0, 39, 0xffff] {
            out.push(SAvp::Hidden { attr: a, value: ramp(*n) });
        }
    }
    for a in attrs {
        out.push(SAvp::Hidden { attr: a, value: ramp(16) });
        out.push(SAvp::Hidden { attr: a, value: vec![] });
    }
    out
}

pub fn payload_in_domain(a: &SAvp) -> bool {
    // C03's domain: variable-length payloads non-empty, AVP at most 1023 octets
    let len_ok = 6 + spec::payload_of(a).len() <= 1023;
    let nonempty = match a {
        SAvp::Hidden { .. } => true,
        SAvp::Plain { val, .. } => match val {
            SVal::Bytes(b) => !b.is_empty(),
            SVal::Str(s) => !s.is_empty(),
            SVal::ResultCode { error: Some((_, Some(m))), .. } => !m.is_empty(),
            SVal::Q931 { adv: Some(a), .. } => !a.is_empty(),
            _ => true,
        },
    };
    len_ok && nonempty
}

/// 48-entry menu for AVP lists of control messages: every kind once, plus optional parts
/// absent / present, maximal payloads, hidden values.
pub fn list_menu() -> Vec<SAvp> {
    let mut v: Vec<SAvp> = spec::ALL_ATTRS.iter().map(|a| canonical(*a)).collect();
    v.push(plain(1, SVal::ResultCode { code: 2, error: None }));
    v.push(plain(1, SVal::ResultCode { code: 0xffff, error: Some((0, None)) }));
    v.push(plain(12, SVal::Q931 { code: 0, msg: 0, adv: None }));
    v.push(plain(7, SVal::Bytes(ramp(1017))));
    v.push(plain(8, SVal::Str(utf8_of_len(250))));
    v.push(SAvp::Hidden { attr: 7, value: ramp(16) });
    v.push(SAvp::Hidden { attr: 0xffff, value: ramp(32) });
    v.push(SAvp::Hidden { attr: 0, value: vec![] });
    v.push(plain(0, SVal::MessageType(16)));
    v
}

/// 16-entry sub-menu for longer lists
pub fn short_menu() -> Vec<SAvp> {
    let m = list_menu();
    [0usize, 1, 5, 7, 8, 12, 13, 25, 28, 31, 33, 34, 38, 42, 44, 46].iter().map(|i| m[*i].clone()).collect()
}
