//! Value space V (DESIGN §4.2): alphabets of specification values that the bridge turns into
//! crate values.

use crate::gen::ramp;
use crate::spec::{self, Kind, SAvp, SVal};

pub fn plain(attr: u16, val: SVal) -> SAvp {
    SAvp::Plain { attr, val }
}

pub fn ascii(n: usize) -> String {
    (0..n).map(|i| (b'a' + (i % 26) as u8) as char).collect()
}

/// a valid UTF-8 string of exactly `n` octets that ends in a multi-octet scalar when it fits
pub fn utf8_of_len(n: usize) -> String {
    let tail: &str = match n {
        0 | 1 => "",
        2 | 3 => "é",
        4 => "€",
        _ => "😀",
    };
    let mut s = ascii(n - tail.len());
    s.push_str(tail);
    s
}

/// One representative value per kind (every data field a distinct sentinel), used by the
/// specification self-check and as the default of value explorations.
pub fn canonical(attr: u16) -> SAvp {
    let (k, _) = spec::kind_of(attr).expect("known attribute");
    let v = match k {
        Kind::MessageType => SVal::MessageType(1),
        Kind::ResultCode => SVal::ResultCode {
            code: 0x0102,
            error: Some((6, Some("err é".to_string()))),
        },
        Kind::ProtoVer => SVal::ProtoVer(1, 0),
        Kind::Bits => SVal::Bits(0x010203c4),
        Kind::U16 => SVal::U16(0x1234),
        Kind::U32 => SVal::U32(0x12345678),
        Kind::U64 => SVal::U64(0x0102030405060708),
        Kind::Bytes => SVal::Bytes(vec![0x10, 0x00, 0xff, 0x7f, 0x80]),
        Kind::Str => SVal::Str("näme".to_string()),
        Kind::Fix4 => SVal::Fix4([0xde, 0xad, 0xbe, 0xef]),
        Kind::Fix16 => SVal::Fix16(ramp(16).try_into().unwrap()),
        Kind::Q931 => SVal::Q931 {
            code: 0x0310,
            msg: 0x7f,
            adv: Some("adv".to_string()),
        },
        Kind::PAType => SVal::PAType(2),
        Kind::PAId => SVal::PAId(0x5a),
        Kind::CallErrors => SVal::CallErrors([0x01020304, 0x11121314, 0x21222324, 0x31323334, 0x41424344, 0x51525354]),
        Kind::Accm => SVal::Accm([1, 2, 3, 4], [0xf1, 0xf2, 0xf3, 0xf4]),
        Kind::Empty => SVal::Empty,
    };
    plain(attr, v)
}

/// Menu of representative AVP values: every kind at least once, extra entries for optional
/// parts absent / present, hidden values. First entry is a Message Type.
pub fn menu_avps() -> Vec<SAvp> {
    let mut v: Vec<SAvp> = spec::ALL_ATTRS.iter().map(|a| canonical(*a)).collect();
    v.push(plain(1, SVal::ResultCode { code: 2, error: None }));
    v.push(plain(1, SVal::ResultCode { code: 0xffff, error: Some((0, None)) }));
    v.push(plain(12, SVal::Q931 { code: 0, msg: 0, adv: None }));
    v.push(plain(7, SVal::Bytes(ramp(1017))));
    v.push(plain(8, SVal::Str(utf8_of_len(250))));
    v.push(SAvp::Hidden { attr: 7, value: ramp(16) });
    v.push(SAvp::Hidden { attr: 0xffff, value: ramp(32) });
    v.push(SAvp::Hidden { attr: 0, value: vec![] });
    v
}
